CONSTANT CheckN = FALSE
INIT Init
NEXT Next
CONSTRAINT Mark
INVARIANT NeverOver
POSTCONDITION Report
CHECK_DEADLOCK FALSE
