-------------------------------- MODULE MeasureTrace --------------------------------
(* Contract of the measurement primitives (measurements/*.go), property C18, as a deterministic *)
(* trace acceptor.  Float64 values are logged as the three 21-bit chunks of their bit pattern    *)
(* (non-negative finite floats: bit-pattern order is numeric order, so minimum / hull / equality *)
(* are exact); anything else is logged with a class other than "ok" and rejected.                *)
(*   minimum   value = least sample since the last reset                                        *)
(*   single    value = latest sample                                                            *)
(*   expavg, ema   value stays between the smallest and the largest sample since the last reset *)
(*                 (up to 4 units in the last place: x*(1-f) + x*f need not be x in float64)    *)
(*   variance  values are non-negative (class ok)                                               *)
(*   percentile  an estimate (may go below zero: sign logged separately); only flag and reset   *)
(*   all       Add's flag is true whenever the stored value changed; after Reset the instance   *)
(*             returns bit-identical values to a fresh instance fed the same samples (twin)     *)
(*   window    the fold of a set of samples is independent of their order and equals            *)
(*             (min, sum, count, max in-flight, any drop)                                       *)
EXTENDS Integers, Sequences, FiniteSets, TLC, Json, IOUtils

Log == ndJsonDeserialize(IOEnv.VERIF_TRACE)
VARIABLES l, ok, cfg, st
vars == <<l, ok, cfg, st>>

Le3(a, b) == \/ a[1] < b[1] \/ (a[1] = b[1] /\ a[2] < b[2]) \/ (a[1] = b[1] /\ a[2] = b[2] /\ a[3] <= b[3])
Min3(a, b) == IF Le3(a, b) THEN a ELSE b
Max3(a, b) == IF Le3(a, b) THEN b ELSE a
None == <<-1, -1, -1>>

Max(a, b) == IF a > b THEN a ELSE b
Min(a, b) == IF a < b THEN a ELSE b

RECURSIVE FoldW(_, _, _)
FoldW(xs, i, acc) ==
  IF i > Len(xs) THEN acc
  ELSE LET x == xs[i] IN
       FoldW(xs, i + 1,
             IF x.drop THEN [acc EXCEPT !.maxin = Max(@, x.inflight), !.drop = TRUE]
             ELSE [acc EXCEPT !.min = IF @ < 0 THEN x.rtt ELSE Min(@, x.rtt), !.sum = @ + x.rtt, !.count = @ + 1, !.maxin = Max(@, x.inflight)])

CheckAdd(c, s, e) ==
  LET lo == IF s.lo = None THEN e.x ELSE Min3(s.lo, e.x)
      hi == IF s.hi = None THEN e.x ELSE Max3(s.hi, e.x)
  IN
  IF e.cls # "ok" /\ ~(c.kind = "percentile" /\ e.cls = "negative") THEN "value is negative, NaN or infinite"
  ELSE IF e.changed /\ ~e.flag THEN "Add reported 'not updated' although the stored value changed"
  ELSE IF e.twincls # e.cls \/ e.twin # e.val THEN "after Reset the instance differs from a fresh one fed the same samples"
  ELSE IF c.kind = "minimum" /\ e.val # lo THEN "minimum is not the least sample since reset"
  ELSE IF c.kind = "single" /\ e.val # e.x THEN "single is not the latest sample"
  ELSE IF c.kind \in {"expavg", "ema"} /\ ~(Le3(lo, e.valup) /\ Le3(e.valdn, hi)) THEN "average left the hull of the samples seen"   \* up to 4 ulp (valdn, valup)
  ELSE ""

(* Update(operation): the operation is applied to the stored value and its result is stored (minimum: offered as a *)
(* sample; variance: only the derived deviation is replaced, the variance itself stays)                             *)
Zero == <<0, 0, 0>>
CheckUpdate(c, s, e) ==
  IF e.twincls # e.cls \/ e.twin # e.val THEN "after Reset the instance differs from a fresh one given the same operations"
  ELSE IF c.kind \in {"minimum", "single", "expavg", "variance"} /\ (e.arg # e.before \/ e.argcls # e.beforecls) THEN "Update did not apply the operation to the stored value"
  ELSE IF c.kind \in {"single", "expavg", "ema", "percentile"} /\ (e.val # e.out \/ e.cls # e.outcls) THEN "Update did not store the operation's result"
  ELSE IF c.kind = "minimum" /\ e.val # (IF e.before = Zero \/ ~Le3(e.before, e.out) THEN e.out ELSE e.before) THEN "minimum: Update did not offer the operation's result as a sample"
  ELSE IF c.kind = "variance" /\ e.val # e.before THEN "variance: Update changed the variance"
  ELSE ""

(* Race: an Update parked inside its operation while a second call is made; the instance afterwards (value, and the *)
(* reply to one more sample) is what one of the two serial orders produces on identically prepared twins            *)
Init == l = 1 /\ ok = FALSE /\ cfg = [kind |-> "none"] /\ st = [lo |-> None, hi |-> None]
Rej(e, why) == PrintT(<<"REJECT", ToJson([trace |-> e.trace, line |-> l, why |-> why, kind |-> cfg.kind, logged |-> e])>>)
Step ==
  /\ l <= Len(Log) /\ l' = l + 1
  /\ LET e == Log[l] IN
     IF e.ev = "Reset" THEN cfg' = e.cfg /\ st' = [lo |-> None, hi |-> None] /\ ok' = TRUE
     ELSE IF e.ev = "Race"
     THEN /\ UNCHANGED <<ok, cfg, st>>
          /\ (e.got # e.ab /\ e.got # e.ba) => PrintT(<<"REJECT", ToJson([trace |-> e.trace, line |-> l, why |-> "an Update overlapping another call left a state neither serial order produces",
                                                                           kind |-> e.kind, logged |-> e])>>)
     ELSE IF e.ev = "WindowHeld"
     THEN \* a sample window is a value: one that was kept says the same after any number of samples added to other windows
          /\ UNCHANGED <<ok, cfg, st>>
          /\ e.before # e.after =>
                PrintT(<<"REJECT", ToJson([trace |-> e.trace, line |-> l, why |-> "a sample window that was kept changed although nothing was added to it",
                                           kind |-> "window", logged |-> e, expected |-> e.before])>>)
     ELSE IF ~ok THEN UNCHANGED <<ok, cfg, st>>
     ELSE IF e.ev = "ResetOp" THEN st' = [lo |-> None, hi |-> None] /\ UNCHANGED <<ok, cfg>>
     ELSE IF e.ev = "Window"
     THEN LET w == FoldW(e.samples, 1, [min |-> -1, sum |-> 0, count |-> 0, maxin |-> 0, drop |-> FALSE]) IN
          /\ UNCHANGED <<cfg, st>>
          /\ IF e.a = w /\ e.b = w THEN UNCHANGED ok
             ELSE ok' = FALSE /\ PrintT(<<"REJECT", ToJson([trace |-> e.trace, line |-> l, why |-> "window fold differs from the samples added or depends on their order",
                                                            kind |-> "window", logged |-> e, expected |-> w])>>)
     ELSE IF e.ev = "Update"
     THEN LET why == CheckUpdate(cfg, st, e) IN
          IF why = ""
          THEN /\ UNCHANGED <<ok, cfg>>
               /\ st' = IF e.outcls = "ok" THEN [lo |-> IF st.lo = None THEN e.out ELSE Min3(st.lo, e.out), hi |-> IF st.hi = None THEN e.out ELSE Max3(st.hi, e.out)] ELSE st
          ELSE ok' = FALSE /\ UNCHANGED <<cfg, st>> /\ Rej(e, why)
     ELSE LET why == CheckAdd(cfg, st, e) IN
          IF why = ""
          THEN st' = [lo |-> IF st.lo = None THEN e.x ELSE Min3(st.lo, e.x), hi |-> IF st.hi = None THEN e.x ELSE Max3(st.hi, e.x)] /\ UNCHANGED <<ok, cfg>>
          ELSE ok' = FALSE /\ UNCHANGED <<cfg, st>> /\ Rej(e, why)
Done == l > Len(Log) /\ UNCHANGED vars
Next == Step \/ Done
Consumed == (l > Len(Log)) => PrintT(<<"CONSUMED", l - 1>>)
=================================================================================
