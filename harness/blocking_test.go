//go:build verif

package harness

import (
	"context"
	"encoding/json"
	"fmt"
	"math"
	"path/filepath"
	"testing"
	"testing/synctest"
	"time"

	"github.com/platinummonkey/go-concurrency-limits/core"
	"github.com/platinummonkey/go-concurrency-limits/limit"
	"github.com/platinummonkey/go-concurrency-limits/limiter"
	"github.com/platinummonkey/go-concurrency-limits/strategy"
)

// blockCfg mirrors the "C" record printed by spec/Blocking.tla.
type blockCfg struct {
	Kind        string   `json:"kind"`
	Limit       int      `json:"limit"`
	Poll        int      `json:"poll"`
	Deadline    int      `json:"deadline"`
	Procs       []string `json:"procs"`
	Fine        bool     `json:"fine"`
	Cancellable []string `json:"cancellable"`
	Horizon     int      `json:"horizon"`
	Recheck     bool     `json:"recheck"`
	Blackbox    bool     `json:"blackbox"`
	AllServed   bool     `json:"allserved"`
}

// newDelegate builds the real delegate: DefaultLimiter over a fixed limit and the simple strategy.
// The RTT threshold is huge so that no completion ever feeds the window (the limit stays fixed).
func newDelegate(lim int, precise bool) (*limiter.DefaultLimiter, func() int, error) {
	var st core.Strategy
	var busy func() int
	if precise {
		s := strategy.NewPreciseStrategy(lim)
		st, busy = s, s.GetBusyCount
	} else {
		s := strategy.NewSimpleStrategy(lim)
		st, busy = s, s.GetBusyCount
	}
	dl, err := limiter.NewDefaultLimiter(limit.NewFixedLimit("verif", lim, nil), 1e9, 1e9, math.MaxInt64/4, 100, st, nil, core.EmptyMetricRegistryInstance)
	return dl, busy, err
}

func buildBlocking(t testing.TB, cfg blockCfg) *scenario {
	gates := []string{"acq.enter", "acq.exit", "rel.exit"}
	if cfg.Fine {
		gates = append(gates, "block.childStart")
	}
	c := newController(gates...)
	s := newScenario(t, c, cfg.Procs)
	c.emit = s.ev
	limiter.VerifPoint = func(point string) { c.gate(point, nil) }
	dl, busy, err := newDelegate(cfg.Limit, false)
	if err != nil {
		t.Fatal(err)
	}
	gl := &GatedLimiter{c: c, inner: dl}
	if cfg.Kind == "deadline" {
		s.lim = limiter.NewDeadlineLimiter(gl, s.t0.Add(time.Duration(cfg.Deadline)*tickDur), nil)
	} else {
		s.lim = limiter.NewBlockingLimiter(gl, time.Duration(cfg.Poll)*tickDur, nil)
	}
	s.extra = func() J { return J{"busy": busy(), "gauge": int(dl.VerifInFlight())} }
	s.flush = func() {
		// one uncontended acquire + completion: its Broadcast flushes helper goroutines left in cond.Wait
		ctx, cancel := context.WithTimeout(context.Background(), time.Second)
		defer cancel()
		if l, ok := s.lim.Acquire(ctx); ok && l != nil {
			l.OnIgnore()
		}
	}
	return s
}

// runSchedules replays edge paths of a schedule graph on real stacks, one bubble per path, and
// records every executed step with the events and observations of the real code.
func runSchedules(t *testing.T, g *sGraph, paths [][]*sEdge, w *ndWriter, rep *schedReport, traceBase int,
	build func(t testing.TB) *scenario, cfgOut any, horizon int) {
	for k, path := range paths {
		k, path := k, path
		func() {
			defer func() {
				if r := recover(); r != nil {
					rep.Leaked++
					if len(rep.FirstDiverge) < 10 {
						rep.FirstDiverge = append(rep.FirstDiverge, J{"scenario": traceBase + k, "bubble_panic": fmt.Sprint(r)})
					}
				}
			}()
			synctest.Test(t, func(t *testing.T) {
				s := build(t)
				defer func() { limiter.VerifPoint = nil }()
				trace := traceBase + k
				w.write(J{"ev": "Reset", "trace": trace, "cfg": cfgOut, "obs": s.observe()})
				diverged := false
				softDiverged := false
				i := 0
				logStep := func(st any, exp string, conf bool) {
					i++
					w.write(J{"ev": "Step", "trace": trace, "i": i, "step": st, "evs": s.events(), "obs": s.observe(), "conf": conf})
				}
				for pi := 0; pi < len(path); pi++ {
					e := path[pi]
					rep.Steps++
					if err := s.apply(e.Step); err != nil {
						diverged = true
						rep.Infeasible++
						if len(rep.FirstDiverge) < 10 {
							rep.FirstDiverge = append(rep.FirstDiverge, J{"scenario": trace, "step": e.Step, "infeasible": err.Error()})
						}
						break
					}
					got := canonV(s.observe())
					conf := got == e.Obs
					if !conf {
						if alt := g.sibling(e, got); alt != nil {
							// the model allows this outcome too: follow it from here
							rep.Alternates++
							alt.covered = true
							e, conf = alt, true
							path = append(append([]*sEdge{}, path[:pi+1]...), g.greedyFrom(alt.To, 300)...)
						}
					}
					logStep(e.Step, e.Obs, conf)
					if !conf && sameStatuses(got, e.Obs) {
						// every process is where the model expects it (same gates, same calls returned): only counters
						// differ. Keep following the schedule - what the changed code does next is what the contract
						// has to see - but count the scenario as diverged.
						if !softDiverged {
							softDiverged = true
							rep.Diverged++
							if len(rep.FirstDiverge) < 10 {
								rep.FirstDiverge = append(rep.FirstDiverge, J{"scenario": trace, "step": e.Step, "expected": json.RawMessage(e.Obs), "got": json.RawMessage(got), "continued": true})
							}
						}
						continue
					}
					if !conf {
						diverged = true
						rep.Diverged++
						if len(rep.FirstDiverge) < 10 {
							rep.FirstDiverge = append(rep.FirstDiverge, J{"scenario": trace, "step": e.Step, "expected": json.RawMessage(e.Obs), "got": json.RawMessage(got)})
						}
						break
					}
					rep.Conform++
				}
				if diverged {
					// the model could not be followed: let everything run free (gates off, every parked goroutine
					// released at once - stepping them one by one could park one that holds a mutex another needs)
					// so that the contract still sees a complete execution, then let time pass
					s.c.disableAll()
					s.mu.Lock()
					s.evs = nil
					s.mu.Unlock()
					s.c.passAll()
					synctest.Wait()
					logStep(schedStep{A: "drain"}, "", false)
					for s.now() < horizon {
						if err := s.apply(schedStep{A: "tick"}); err != nil {
							break
						}
						logStep(schedStep{A: "tick"}, "", false)
					}
				}
				s.cleanup()
			})
		}()
		rep.Scenarios++
	}
}

// sameStatuses: two projections agree on where every process is (the "procs" and "kids" maps).
func sameStatuses(a, b string) bool {
	var x, y struct {
		Procs map[string]string `json:"procs"`
		Kids  map[string]bool   `json:"kids"`
	}
	if json.Unmarshal([]byte(a), &x) != nil || json.Unmarshal([]byte(b), &y) != nil {
		return false
	}
	if len(x.Procs) != len(y.Procs) {
		return false
	}
	for k, v := range x.Procs {
		if y.Procs[k] != v {
			return false
		}
	}
	for k, v := range x.Kids {
		if y.Kids[k] != v {
			return false
		}
	}
	return true
}

// TestBlockingReplay drives the real Blocking / Deadline limiters through every transition of the
// TLC state graphs of spec/Blocking.tla and records the executions for validation against the
// contract (spec/BlockingTrace.tla).
func TestBlockingReplay(t *testing.T) {
	files, _ := filepath.Glob(filepath.Join(filepath.Dir(inFile(t, "x")), "blocking_*.ndjson"))
	if len(files) == 0 {
		t.Fatal("no blocking_*.ndjson graphs")
	}
	w := newNdWriter(t, filepath.Join(outDir(t), "blocking_trace.ndjson"))
	defer w.close()
	var reps []*schedReport
	base := 0
	for _, f := range files {
		g := loadSGraph(t, f)
		var cfg blockCfg
		if err := json.Unmarshal(g.cfg, &cfg); err != nil {
			t.Fatal(err)
		}
		paths := g.coverPaths(200)
		rep := &schedReport{Graph: filepath.Base(f), States: len(g.adj), Edges: len(g.edges)}
		runSchedules(t, g, paths, w, rep, base, func(t testing.TB) *scenario { return buildBlocking(t, cfg) }, cfg, cfg.Horizon)
		base += len(paths)
		t.Logf("%s: states=%d edges=%d scenarios=%d steps=%d conform=%d infeasible=%d diverged=%d leaked=%d", filepath.Base(f), rep.States, rep.Edges, rep.Scenarios, rep.Steps, rep.Conform, rep.Infeasible, rep.Diverged, rep.Leaked)
		reps = append(reps, rep)
	}
	writeJSON(t, filepath.Join(outDir(t), "blocking_replay.json"), reps)
}
