//go:build verif

package harness

import (
	"path/filepath"
	"testing"
	"time"

	"github.com/platinummonkey/go-concurrency-limits/core"
)

// TestMeasureRace parks an Update inside its operation and makes a second call (Add, Reset or another Update)
// on the same instance meanwhile (bounded wait: on this tree the second call blocks on the instance's mutex),
// then lets the Update finish.  The instance afterwards - its value and its reply to one more sample - must be what
// one of the two serial orders yields on identically prepared twins (C18: all interleavings of Add / Update /
// Reset / Get on one instance).
func TestMeasureRace(t *testing.T) {
	w := newNdWriter(t, filepath.Join(outDir(t), "measure_race_trace.ndjson"))
	defer w.close()
	wait := 10 * time.Millisecond
	if thorough() {
		wait = 60 * time.Millisecond
	}
	kinds := []string{"minimum", "single", "expavg", "ema", "variance", "percentile"}
	seconds := []string{"add", "reset", "update"}
	overtook, k := 0, 0
	for rep := 0; rep < envInt("VERIF_N", 4); rep++ {
		for _, kind := range kinds {
			for _, second := range seconds {
				r := newRng(seed()+uint64(rep), uint64(9000+k))
				p := []float64{float64(r.between(2, 20)), float64(r.between(1, 6)), []float64{0.05, 0.2, 0.5, 1, 0.7, 0.8, 0.9, 0.99, 0.3, 0.01}[r.intn(10)], []float64{0.05, 0.25, 1}[r.intn(3)],
					[]float64{0.5, 0.9, 0.99}[r.intn(3)], []float64{0.001, 0.01, 0.5}[r.intn(3)]}
				ms := [3]core.MeasurementInterface{newMeasurement(kind, p), newMeasurement(kind, p), newMeasurement(kind, p)}
				for i, n := 0, r.between(1, 12); i < n; i++ {
					x := float64(r.between(1, 1000)) * 8
					for _, m := range ms {
						m.Add(x)
					}
				}
				fk, gk := r.intn(3), r.intn(3)
				op := func(kk int) func(float64) float64 {
					return func(v float64) float64 {
						switch {
						case v == 0:
							return 3
						case kk == 0:
							return v * 2
						case kk == 1:
							return v / 2
						}
						return v + 3
					}
				}
				x := float64(r.between(1, 1000)) * 8
				b := func(m core.MeasurementInterface) {
					switch second {
					case "add":
						m.Add(x)
					case "reset":
						m.Reset()
					default:
						m.Update(op(gk))
					}
				}
				parked, resume := make(chan struct{}), make(chan struct{})
				doneA, doneB := make(chan struct{}), make(chan struct{})
				go func() {
					ms[0].Update(func(v float64) float64 { close(parked); <-resume; return op(fk)(v) })
					close(doneA)
				}()
				select {
				case <-parked:
				case <-time.After(2 * time.Second):
					t.Fatalf("%s: Update never ran its operation", kind)
				}
				go func() { b(ms[0]); close(doneB) }()
				select {
				case <-doneB:
					overtook++
				case <-time.After(wait):
				}
				close(resume)
				<-doneA
				<-doneB
				ms[1].Update(op(fk))
				b(ms[1])
				b(ms[2])
				ms[2].Update(op(fk))
				probe := float64(r.between(1, 1000)) * 8
				state := func(m core.MeasurementInterface) J {
					g, gc := fbits(m.Get())
					v, flag := m.Add(probe)
					vb, vc := fbits(v)
					a, ac := fbits(m.Get())
					return J{"get": g, "getcls": gc, "reply": vb, "replycls": vc, "flag": flag, "after": a, "aftercls": ac}
				}
				w.write(J{"ev": "Race", "trace": k, "kind": kind, "second": second, "f": fk, "g": gk, "got": state(ms[0]), "ab": state(ms[1]), "ba": state(ms[2])})
				k++
			}
		}
	}
	writeJSON(t, filepath.Join(outDir(t), "measure_race.json"), J{"scenarios": k, "second_call_overtook_the_parked_update": overtook})
}
