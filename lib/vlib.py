"""Shared machinery for /verif/bin/check: scratch handling, harness build, TLC runner and
output parser, verdicts (VIOLATION / KNOWN-FINDING), evidence writer.

Exit codes of a check: 0 = property held on everything explored (KNOWN-FINDING lines allowed),
1 = VIOLATION printed, 2 = machinery problem (build failure, TLC parse error, timeout, dead
driver) - never reported as a violation.
"""
import json
import os
import re
import shutil
import subprocess
import sys
import tempfile
import threading
import time

VERIF = os.path.dirname(os.path.dirname(os.path.abspath(__file__)))
REPO = os.environ.get("VERIF_REPO", "/repo")
SPEC = os.path.join(VERIF, "spec")
HARNESS = os.path.join(VERIF, "harness")
EVID = os.environ.get("VERIF_EVID") or os.path.join(VERIF, "evidence")   # VERIF_EVID: seeded-change runs write elsewhere
GO = os.environ.get("VERIF_GO", "go1.26.8")
NPROC = os.cpu_count() or 4


class Machinery(Exception):
    """A problem of the checking machinery itself (exit 2)."""


def goenv():
    e = dict(os.environ)
    e.update({"GOFLAGS": "-mod=mod", "GOPROXY": "off", "GOSUMDB": "off", "GOTOOLCHAIN": "local"})
    return e


def unescape_tla_string(s):
    out = []
    i = 0
    while i < len(s):
        c = s[i]
        if c == "\\" and i + 1 < len(s):
            n = s[i + 1]
            out.append({"n": "\n", "t": "\t", "r": "\r", "f": "\f"}.get(n, n))
            i += 2
        else:
            out.append(c)
            i += 1
    return "".join(out)


PRINT_RE = re.compile(r'^<<"([A-Z_]+)", (.*)>>$')


class TlcResult:
    def __init__(self):
        self.generated = 0
        self.distinct = 0
        self.depth = 0
        self.ok = False          # finished without error
        self.violation = None    # "invariant X" / "action property" / "temporal" / "deadlock" ...
        self.error = None        # machinery-type error text
        self.prints = {}         # tag -> list of payload strings (json strings unescaped)
        self.raw = ""
        self.wall = 0.0
        self.coverage_zero = []
        self.cex = []            # counterexample state texts

    def json_prints(self, tag):
        res = []
        for p in self.prints.get(tag, []):
            p = p.strip()
            if p.startswith('"') and p.endswith('"'):
                res.append(json.loads(unescape_tla_string(p[1:-1])))
        return res


class Run:
    def __init__(self, prop, tier="quick", seed=0):
        self.prop = prop
        self.tier = tier
        self.seed = seed
        self.t0 = time.time()
        self.scratch = tempfile.mkdtemp(prefix="verif-%s-" % prop)
        self.states = 0
        self.transitions = 0
        self.traces = 0
        self.events = 0
        self.samples = []
        self.violations = []
        self.known = []
        self.extra = {}
        self.assumptions = []
        self.exhaustive = None
        self.bin = None
        self._tlcn = 0
        self._lock = threading.Lock()
        self.tlc_runs = []
        self.known_findings = load_known_findings()

    # ------------------------------------------------------------------ harness
    def build(self):
        if self.bin:
            return self.bin
        # checks may run side by side: replace go.sum atomically, and only when it differs
        src, dst = os.path.join(REPO, "go.sum"), os.path.join(HARNESS, "go.sum")
        want = open(src, "rb").read()
        if not os.path.exists(dst) or open(dst, "rb").read() != want:
            tmp = "%s.%d.tmp" % (dst, os.getpid())
            with open(tmp, "wb") as f:
                f.write(want)
            os.replace(tmp, dst)
        out = os.path.join(self.scratch, "harness.test")
        t = time.time()
        hdir = HARNESS
        if REPO != "/repo":
            # a tree other than /repo (bin/seedcheck: a scratch worktree carrying a seeded change): build a copy of the
            # harness whose replace directive points there
            hdir = os.path.join(self.scratch, "harness_src")
            shutil.copytree(HARNESS, hdir)
            gm = open(os.path.join(hdir, "go.mod")).read().replace("=> /repo", "=> " + REPO)
            open(os.path.join(hdir, "go.mod"), "w").write(gm)
            shutil.copy(os.path.join(REPO, "go.sum"), os.path.join(hdir, "go.sum"))
        p = subprocess.run([GO, "test", "-tags", "verif", "-c", "-o", out, "."], cwd=hdir,
                           env=goenv(), capture_output=True, text=True)
        if p.returncode != 0 or not os.path.exists(out):
            raise Machinery("harness build against %s failed:\n%s\n%s" % (REPO, p.stdout[-4000:], p.stderr[-4000:]))
        self.extra["build_s"] = round(time.time() - t, 1)
        self.bin = out
        return out

    def go(self, run_regex, env=None, timeout=900, outdir=None, allow_fail=False):
        """Run tests of the harness binary. Returns (outdir, stdout)."""
        b = self.build()
        outdir = outdir or tempfile.mkdtemp(prefix="go-", dir=self.scratch)
        e = goenv()
        e.update({"VERIF_OUT": outdir, "VERIF_SEED": str(self.seed), "VERIF_TIER": self.tier})
        if env:
            e.update({k: str(v) for k, v in env.items()})
        try:
            p = subprocess.run([b, "-test.run", run_regex, "-test.count=1", "-test.timeout", "%ds" % timeout,
                                "-test.v"], cwd=outdir, env=e, capture_output=True, text=True, timeout=timeout + 30)
        except subprocess.TimeoutExpired:
            raise Machinery("harness %s timed out after %ds" % (run_regex, timeout))
        if p.returncode != 0 and not allow_fail:
            lp = library_panic(p.stdout + "\n" + p.stderr)
            if lp:
                raise LibraryPanic(run_regex, lp)
            raise Machinery("harness run %s exited %d:\n%s\n%s" % (run_regex, p.returncode, p.stdout[-6000:], p.stderr[-3000:]))
        if "no tests to run" in p.stdout:
            raise Machinery("harness run %s matched no tests" % run_regex)
        return outdir, p.stdout

    # ---------------------------------------------------------------------- TLC
    def tlc(self, module, cfg, workers=None, simulate=None, depth=None, env=None, timeout=900,
            dfs=False, coverage=False, extra_args=None, label=None, seed=None, cfg_text=None, jvm=None):
        """Run TLC on spec/<module>.tla with spec/<cfg> (or the given cfg text) in a scratch copy of spec/."""
        with self._lock:
            self._tlcn += 1
            d = os.path.join(self.scratch, "tlc%d" % self._tlcn)
        shutil.copytree(SPEC, d)
        if cfg_text is not None:
            with open(os.path.join(d, cfg), "w") as f:
                f.write(cfg_text)
        meta = os.path.join(d, "meta")
        args = ["timeout", str(timeout), "tlc", "-metadir", meta, "-config", cfg,
                "-workers", str(workers or NPROC), "-noGenerateSpecTE"]
        if simulate:
            args += ["-simulate", simulate]
        if depth:
            args += ["-depth", str(depth)]
        if seed is not None:
            args += ["-seed", str(seed)]
        if coverage:
            args += ["-coverage", "1"]
        if extra_args:
            args += extra_args
        args.append(module + ".tla")
        e = dict(os.environ)
        jto = "-Xss64m" + (" " + jvm if jvm else "")
        if dfs:
            jto += " -Dtlc2.tool.queue.IStateQueue=StateDeque"
        e["JAVA_TOOL_OPTIONS"] = (e.get("JAVA_TOOL_OPTIONS", "") + " " + jto).strip()
        if env:
            e.update({k: str(v) for k, v in env.items()})
        t = time.time()
        p = subprocess.run(args, cwd=d, env=e, capture_output=True, text=True)
        r = parse_tlc(p.stdout + "\n" + p.stderr, p.returncode)
        r.wall = round(time.time() - t, 2)
        r.label = label or ("%s/%s" % (module, cfg))
        shutil.rmtree(d, ignore_errors=True)
        with self._lock:
            self.tlc_runs.append({"run": r.label, "generated": r.generated, "distinct": r.distinct, "depth": r.depth,
                                  "ok": r.ok, "violation": r.violation, "error": r.error, "wall_s": r.wall})
        return r

    def mc(self, module, cfg, **kw):
        """Design-level check that must pass; counts states into the evidence."""
        r = self.tlc(module, cfg, **kw)
        if r.error:
            raise Machinery("TLC %s: %s\n%s" % (r.label, r.error, r.raw[-3000:]))
        if not r.ok:
            # a model-level counterexample that is not a reproduced real-code trace is a machinery
            # problem (model bug or unconfirmed suspicion), never a violation (DESIGN 3.4)
            raise Machinery("TLC %s reports %s on the model (no real-code trace):\n%s" % (r.label, r.violation, r.raw[-5000:]))
        self.states += r.distinct
        self.transitions += r.generated
        return r

    def neg(self, module, cfg, **kw):
        """Weakened model: TLC must find a violation (proves the invariant is not vacuous)."""
        r = self.tlc(module, cfg, **kw)
        if r.error:
            raise Machinery("TLC %s: %s\n%s" % (r.label, r.error, r.raw[-3000:]))
        if r.ok:
            raise Machinery("TLC %s: weakened model does not violate the property (vacuous invariant?)" % r.label)
        self.extra.setdefault("neg", []).append({"run": r.label, "violated": r.violation})
        return r

    # ----------------------------------------------------------------- verdicts
    def sample(self, s, cap=6):
        if len(self.samples) < cap:
            self.samples.append(s)

    def report(self, what, replay, signature=None):
        """A real-code trace/step rejected by the contract. signature: dict used to match known findings."""
        for kf in self.known_findings:
            if kf.get("property") == self.prop and kf.get("status", "open") == "open" and match_signature(kf.get("signature", {}), signature or {}):
                if kf["id"] not in [k["id"] for k in self.known]:
                    self.known.append({"id": kf["id"], "what": kf.get("what", what), "count": 1})
                else:
                    for k in self.known:
                        if k["id"] == kf["id"]:
                            k["count"] += 1
                return "known"
        n = len(self.violations) + 1
        os.makedirs(os.path.join(EVID, "replays"), exist_ok=True)
        path = os.path.join(EVID, "replays", "%s-%s-%d.json" % (self.prop, self.tier, n))
        with open(path, "w") as f:
            json.dump({"property": self.prop, "what": what, "signature": signature, "replay": replay,
                       "seed": self.seed, "tier": self.tier}, f, indent=1, default=str)
        self.violations.append({"what": what, "replay": path})
        return "violation"

    def finish(self, level="model_checking", rule=None):
        wall = round(time.time() - self.t0, 1)
        cov = {
            "states": int(self.states), "transitions": int(self.transitions),
            "traces_validated_against_impl": int(self.traces),
            "samples": self.samples[:8] or ["(no sample recorded)"],
            "events_validated": int(self.events),
            "tlc_runs": self.tlc_runs,
        }
        if rule:
            cov["rule"] = rule
        if self.exhaustive is not None:
            cov["exhaustive"] = bool(self.exhaustive)
        cov.update(self.extra)
        ev = {"property_id": self.prop, "tier": self.tier, "seed": int(self.seed), "level": level,
              "coverage": cov, "assumptions": self.assumptions, "wall_s": wall,
              "violations": len(self.violations)}
        if self.known:
            ev["coverage"]["known_findings_seen"] = self.known
        os.makedirs(EVID, exist_ok=True)
        with open(os.path.join(EVID, "%s.json" % self.prop), "w") as f:
            json.dump(ev, f, indent=1, default=str)
        shutil.rmtree(self.scratch, ignore_errors=True)
        for k in self.known:
            print("KNOWN-FINDING: property=%s %s (%s; seen %d times)" % (self.prop, k["id"], k["what"], k["count"]))
        for v in self.violations[:20]:
            print("VIOLATION property=%s replay=%s" % (self.prop, v["replay"]))
            print("  " + v["what"][:600])
        print("%s %s tier=%s seed=%d states=%d transitions=%d traces=%d events=%d wall=%.1fs" % (
            self.prop, "FAIL" if self.violations else "ok", self.tier, self.seed, self.states, self.transitions,
            self.traces, self.events, wall))
        return 1 if self.violations else 0

    def abort(self, msg):
        shutil.rmtree(self.scratch, ignore_errors=True)
        print("MACHINERY-ERROR property=%s: %s" % (self.prop, msg), file=sys.stderr)
        return 2


def match_signature(sig, got):
    if not sig:
        return False
    for k, v in sig.items():
        g = got.get(k)
        if isinstance(v, list):
            if g not in v:
                return False
        elif g != v:
            return False
    return True


def load_known_findings():
    p = os.path.join(VERIF, "known_findings.json")
    if not os.path.exists(p):
        return []
    with open(p) as f:
        return json.load(f).get("findings", [])


class LibraryPanic(Exception):
    """The code under test panicked (first frame of the panicking goroutine below the runtime is in REPO) while the
    harness drove it through a scenario of the property's domain: a violation, reported with the stack."""
    def __init__(self, test, info):
        Exception.__init__(self, "%s: %s" % (test, info["value"]))
        self.test, self.info = test, info


def library_panic(out):
    m = re.search(r"^panic: (.*)$", out, flags=re.M)
    if not m:
        return None
    tail = out[m.start():]
    frames = re.findall(r"^\t(/\S+\.go):(\d+)", tail, flags=re.M)
    for path, line in frames:
        if "/src/runtime/" in path or "/src/testing/" in path or "/src/internal/" in path or "/src/sync/" in path or "/src/container/" in path:
            continue
        if path.startswith(REPO.rstrip("/") + "/"):
            return {"value": m.group(1)[:300], "frame": "%s:%s" % (path, line), "stack": tail[:3000]}
        return None   # the first frame of our own is harness code: a machinery problem
    return None


def parse_tlc(out, rc):
    r = TlcResult()
    r.raw = out
    for line in out.splitlines():
        m = PRINT_RE.match(line.strip())
        if m:
            r.prints.setdefault(m.group(1), []).append(m.group(2))
    m = None
    for m in re.finditer(r"(\d+) states generated, (\d+) distinct states found", out):
        pass
    if m:
        r.generated, r.distinct = int(m.group(1)), int(m.group(2))
    m = re.search(r"The depth of the complete state graph search is (\d+)", out)
    if m:
        r.depth = int(m.group(1))
    m = re.search(r"Error: Invariant (\S+) is violated", out)
    if m:
        r.violation = "invariant " + m.group(1)
    elif "Error: Action property" in out:
        m = re.search(r"Error: Action property (\S+)", out)
        r.violation = "action property " + (m.group(1) if m else "")
    elif "Temporal properties were violated" in out or re.search(r"Temporal property \S+ was violated", out):
        m = re.search(r"Temporal property (\S+) was violated", out)
        r.violation = "temporal property" + (" " + m.group(1) if m else "")
    elif "Error: Deadlock reached" in out:
        r.violation = "deadlock"
    elif re.search(r"Error: The postcondition .* is violated|Postcondition .* violated|The postcondition", out) and "violated" in out:
        r.violation = "postcondition"
    if r.violation is None:
        if "Model checking completed. No error has been found." in out or re.search(r"Simulation (completed|finished)|The number of states generated: ", out) and "Error:" not in out:
            r.ok = True
        elif rc == 124:
            r.error = "timeout"
        else:
            # simulation mode ends without the 'Model checking completed' banner
            if "Error:" not in out and "Exception" not in out and rc == 0:
                r.ok = True
            else:
                m = re.search(r"Error: (.*)", out)
                m2 = re.search(r"The exception was a [^\n]*\n: ([^\n]*(?:\n[^\n]*){0,12})", out)
                r.error = "TLC error rc=%d: %s %s" % (rc, m.group(1) if m else out[-800:], m2.group(1) if m2 else "")
    # counterexample states
    r.cex = re.findall(r"^State \d+: .*?(?=^State \d+:|\Z)", out, flags=re.S | re.M)
    r.coverage_zero = re.findall(r"^\s*(<\S+ line .*?>): 0:0\s*$", out, flags=re.M)
    if r.generated == 0:
        m = re.search(r"The number of states generated: (\d+)", out)
        if m:
            r.generated = int(m.group(1))
            r.distinct = r.distinct or 0
    return r


def read_ndjson(path):
    res = []
    with open(path) as f:
        for line in f:
            line = line.strip()
            if line:
                res.append(json.loads(line))
    return res


def write_ndjson(path, rows):
    with open(path, "w") as f:
        for r in rows:
            f.write(json.dumps(r, separators=(",", ":")) + "\n")
