//go:build verif

package harness

import (
	"encoding/json"
	"fmt"
	"github.com/platinummonkey/go-concurrency-limits/strategy"
	"github.com/platinummonkey/go-concurrency-limits/strategy/matchers"
	"path/filepath"
	"runtime"
	"sync"
	"sync/atomic"
	"testing"
	"time"

	"github.com/platinummonkey/go-concurrency-limits/core"
)

func (s *partSUT) applyRaw(raw json.RawMessage) (any, error) {
	var op partOp
	if err := json.Unmarshal(raw, &op); err != nil {
		return nil, err
	}
	return s.apply(op)
}

func (s *partSUT) observe() any { return s.obs() }

func mkPart(raw json.RawMessage) (sut, error) {
	var cfg partCfg
	if err := json.Unmarshal(raw, &cfg); err != nil {
		return nil, err
	}
	return newPartSUT(cfg)
}

// TestPartitionReplay drives the real partitioned strategies through every transition of the
// state graphs TLC generated from spec/PartitionMC.tla (model -> code).
func TestPartitionReplay(t *testing.T) {
	for _, kind := range []string{"lookup", "predicate"} {
		rep := replayGraph(t, inFile(t, "partition_"+kind+".ndjson"), mkPart)
		t.Logf("%s: %s", kind, rep)
		writeJSON(t, filepath.Join(outDir(t), "replay_"+kind+".json"), rep)
	}
}

// TestPartitionRandom records random histories of real strategies as ndjson (code -> model).
func TestPartitionRandom(t *testing.T) {
	n := envInt("VERIF_N", 200)
	w := newNdWriter(t, filepath.Join(outDir(t), "partition_trace.ndjson"))
	defer w.close()
	keys := []string{"a", "b", "c", "z", "A", "B", "Z"}
	// requests also come without a key, or with a key of another type than string
	reqKeys := append(append([]string{}, keys...), "<none>", "<int>", "")
	names := []string{"a", "b", "c", ""} // the empty name: the partition of requests that carry no key
	for tr := 0; tr < n; tr++ {
		r := newRng(seed(), uint64(tr))
		cfg := partCfg{Kind: []string{"lookup", "predicate"}[tr%2], Den: 16, Limit: r.between(1, 64),
			Objs: map[string]partObjCfg{}, Variant: map[string]string{"unknown": "contract", "add": "contract"}, Lower: lowerMap(keys...)}
		if r.chance(1, 3) {
			cfg.Limit = r.between(1, 6)
		}
		nobj := r.between(1, 4)
		left := 16
		for i := 0; i < nobj; i++ {
			id := fmt.Sprintf("p%d", i)
			num := r.intn(left + 1)
			if r.chance(1, 4) {
				num = 0
			}
			o := partObjCfg{Name: r.pick(names), Num: num, Built: r.between(1, 70), Ci: r.chance(1, 3)}
			for _, k := range keys {
				if r.chance(1, 3) {
					o.Match = append(o.Match, k)
				}
			}
			if len(o.Match) == 0 {
				o.Match = []string{r.pick(keys)}
			}
			cfg.Objs[id] = o
			// initial registration: distinct names for lookup, fractions summing to <= 1
			taken := false
			for _, j := range cfg.Init {
				if cfg.Kind == "lookup" && cfg.Objs[j].Name == o.Name {
					taken = true
				}
			}
			if !taken && num <= left && (len(cfg.Init) == 0 || r.chance(2, 3)) {
				cfg.Init = append(cfg.Init, id)
				left -= num
			}
		}
		s, err := newPartSUT(cfg)
		if err != nil {
			t.Fatalf("trace %d: %v", tr, err)
		}
		w.write(J{"ev": "Reset", "trace": tr, "cfg": cfg, "post": s.obs()})
		nops := r.between(50, 200)
		ids := sortedKeys(cfg.Objs)
		for i := 0; i < nops; i++ {
			var op partOp
			x := r.intn(100)
			switch {
			case x < 45:
				op = partOp{Op: "try", Key: r.pick(reqKeys)}
			case x < 75:
				var bins []string
				for b, ts := range s.tokens {
					if len(ts) > 0 {
						bins = append(bins, b)
					}
				}
				if len(bins) == 0 {
					op = partOp{Op: "try", Key: r.pick(reqKeys)}
				} else {
					sortStrings(bins)
					op = partOp{Op: "rel", Bin: r.pick(bins)}
				}
			case x < 85:
				v := r.between(-1, 64)
				if r.chance(1, 2) {
					v = r.between(0, 8)
				}
				op = partOp{Op: "set", V: v}
			case x < 93:
				op = partOp{Op: "add", Obj: r.pick(ids)}
			default:
				op = partOp{Op: "rem", Key: r.pick(reqKeys)}
			}
			res, err := s.apply(op)
			if err != nil {
				w.write(J{"ev": "Op", "trace": tr, "op": op, "res": J{"ok": false, "err": err.Error()}, "post": J{}})
				break
			}
			w.write(J{"ev": "Op", "trace": tr, "op": op, "res": res, "post": s.obs()})
		}
	}
}

// TestPartitionMoved records histories of a strategy one of whose partition objects has lived in another strategy
// before (granted and released tokens there, then removed - RemovePartitionsMatching hands the objects out, AddPartition
// takes them): the object's past is no part of its new owner's contract (C02, C03: counts and shares are the owner's).
func TestPartitionMoved(t *testing.T) {
	w := newNdWriter(t, filepath.Join(outDir(t), "partition_moved_trace.ndjson"))
	defer w.close()
	tr := 100000 // appended to the random histories by the pipeline
	for rep := 0; rep < 3; rep++ {
		for _, kind := range []string{"predicate", "lookup"} {
			cfg := partCfg{Kind: kind, Den: 16, Limit: 6 + rep, Objs: map[string]partObjCfg{
				"p0": {Name: "a", Num: 4, Match: []string{"a"}, Built: 1},
				"p1": {Name: "b", Num: 8, Match: []string{"b"}, Built: 1},
			}, Init: []string{"p0"}, Variant: map[string]string{"unknown": "contract", "add": "contract"}}
			s, err := newPartSUT(cfg)
			if err != nil {
				t.Fatal(err)
			}
			// the former owner: p1 is registered there, serves a few requests, and is removed again
			if kind == "predicate" {
				other := strategy.NewPredicatePartitionWithMetricRegistry("other", 0.25, matchers.StringPredicateMatcher("x", false), s.reg)
				a, err := strategy.NewPredicatePartitionStrategyWithMetricRegistry([]*strategy.PredicatePartition{other, s.pobj["p1"]}, 12, s.reg)
				if err != nil {
					t.Fatal(err)
				}
				var toks []core.StrategyToken
				for i := 0; i < 2+rep; i++ {
					if tok, ok := a.TryAcquire(keyCtx(kind, "b")); ok {
						toks = append(toks, tok)
					}
				}
				for _, tok := range toks {
					tok.Release()
				}
				if removed, ok := a.RemovePartitionsMatching(keyCtx(kind, "b")); !ok || len(removed) != 1 || removed[0] != s.pobj["p1"] {
					t.Fatalf("former owner did not hand the partition back")
				}
			} else {
				a, err := strategy.NewLookupPartitionStrategyWithMetricRegistry(map[string]*strategy.LookupPartition{"b": s.lobj["p1"]}, nil, 12, s.reg)
				if err != nil {
					t.Fatal(err)
				}
				var toks []core.StrategyToken
				for i := 0; i < 2+rep; i++ {
					if tok, ok := a.TryAcquire(keyCtx(kind, "b")); ok {
						toks = append(toks, tok)
					}
				}
				for _, tok := range toks {
					tok.Release()
				}
				a.RemovePartition("b")
			}
			s.reg.takeSamples()
			w.write(J{"ev": "Reset", "trace": tr, "cfg": cfg, "post": s.obs()})
			step := func(op partOp) bool {
				res, err := s.apply(op)
				if err != nil {
					w.write(J{"ev": "Op", "trace": tr, "op": op, "res": J{"ok": false, "err": err.Error()}, "post": J{}})
					return false
				}
				w.write(J{"ev": "Op", "trace": tr, "op": op, "res": res, "post": s.obs()})
				return true
			}
			ok := step(partOp{Op: "add", Obj: "p1"})
			for i := 0; ok && i < 24; i++ {
				switch {
				case i%4 == 3 && len(s.tokens["p1"]) > 0:
					ok = step(partOp{Op: "rel", Bin: "p1"})
				case i%7 == 5:
					ok = step(partOp{Op: "try", Key: "a"})
				default:
					ok = step(partOp{Op: "try", Key: "b"})
				}
			}
			for _, b := range []string{"p1", "p0"} {
				for ok && len(s.tokens[b]) > 0 {
					ok = step(partOp{Op: "rel", Bin: b})
				}
			}
			for i := 0; ok && i < 4; i++ { // with everything given back the new owner admits its full limit again
				ok = step(partOp{Op: "try", Key: "b"})
			}
			tr++
		}
	}
}

// TestPartitionStress records histories of 2-4 free-running goroutines on real partitioned
// strategies (TryAcquire with random keys, releases, SetLimit) for the linearisability check of
// spec/PartitionLin.tla.
func TestPartitionStress(t *testing.T) {
	n := envInt("VERIF_N", 60)
	w := newNdWriter(t, filepath.Join(outDir(t), "partlin_trace.ndjson"))
	defer w.close()
	keys := []string{"a", "b", "z"}
	for k := 0; k < n; k++ {
		r := newRng(seed(), uint64(k))
		cfg := partCfg{Kind: []string{"lookup", "predicate"}[k%2], Den: 16, Limit: r.between(1, 4), Objs: map[string]partObjCfg{
			"p0": {Name: "a", Num: r.intn(9), Match: []string{"a"}, Built: 1},
			"p1": {Name: "b", Num: r.intn(8), Match: []string{"b", "a"}, Built: 1},
			"p2": {Name: "z", Num: r.intn(4), Match: []string{"z", "a"}, Built: 1},
		}, Init: []string{"p0", "p1"}, Variant: map[string]string{"unknown": "contract", "add": "contract"}}
		s, err := newPartSUT(cfg)
		if err != nil {
			t.Fatal(err)
		}
		var mu sync.Mutex
		var events []J
		var seq, ids int64
		beginRes := func(op J) (int64, func(ok bool, res J)) {
			id := atomic.AddInt64(&ids, 1)
			mu.Lock()
			events = append(events, J{"t": "b", "id": id, "op": op, "seq": atomic.AddInt64(&seq, 1), "ok": true, "res": J{"ok": true}})
			mu.Unlock()
			return id, func(ok bool, res J) {
				mu.Lock()
				events = append(events, J{"t": "e", "id": id, "op": J{"op": ""}, "ok": ok, "res": res, "seq": atomic.AddInt64(&seq, 1)})
				mu.Unlock()
			}
		}
		begin := func(op J) (int64, func(ok bool)) {
			id, end := beginRes(op)
			return id, func(ok bool) { end(ok, J{"ok": ok}) }
		}
		// removing and adding partitions while tokens are out and other goroutines acquire
		remove := func(key string) {
			_, end := beginRes(J{"op": "rem", "key": key})
			if s.lookup != nil {
				busy, ok := s.lookup.RemovePartition(key)
				end(ok, J{"ok": ok, "busy": busy})
				return
			}
			ok, removed, counts, _ := s.removeMatching(key)
			end(ok, J{"ok": ok, "removed": removed, "counts": counts})
		}
		add := func(obj string) {
			_, end := begin(J{"op": "add", "obj": obj})
			if s.lookup != nil {
				end(s.lookup.AddPartition(cfg.Objs[obj].Name, s.lobj[obj]))
			} else {
				end(s.pred.AddPartition(s.pobj[obj]))
			}
		}
		g := r.between(2, 4)
		ops := r.between(8, 16)
		var wg sync.WaitGroup
		for gi := 0; gi < g; gi++ {
			gr := newRng(seed()*7919+uint64(k), uint64(gi))
			wg.Add(1)
			go func() {
				defer wg.Done()
				type held struct {
					id  int64
					tok core.StrategyToken
				}
				var mine []held
				for i := 0; i < ops; i++ {
					if gr.chance(1, 3) {
						runtime.Gosched()
					}
					x := gr.intn(10)
					switch {
					case x < 3 && len(mine) > 0:
						h := mine[len(mine)-1]
						mine = mine[:len(mine)-1]
						_, end := begin(J{"op": "rel", "of": h.id})
						h.tok.Release()
						end(true)
					case x == 8 && gr.chance(1, 2):
						if gr.chance(1, 2) {
							remove(gr.pick(keys))
						} else {
							add(gr.pick([]string{"p0", "p1", "p2"}))
						}
					case x == 9:
						v := gr.between(0, 5)
						_, end := begin(J{"op": "set", "v": v})
						s.strat().SetLimit(v)
						end(true)
					default:
						key := gr.pick(keys)
						id, end := begin(J{"op": "try", "key": key})
						tok, ok := s.strat().TryAcquire(keyCtx(cfg.Kind, key))
						end(ok)
						if ok {
							mine = append(mine, held{id, tok})
						}
					}
				}
				for _, h := range mine {
					_, end := begin(J{"op": "rel", "of": h.id})
					h.tok.Release()
					end(true)
				}
			}()
		}
		wg.Wait()
		w.write(J{"t": "reset", "trace": k, "cfg": cfg, "id": 0, "op": J{"op": ""}, "ok": true, "res": J{"ok": true}})
		for _, e := range events {
			e["trace"] = k
			w.write(e)
		}
		limit, busy := s.totals()
		ob := J{}
		for _, id := range s.ids {
			ob[id] = s.objBusy(id)
		}
		w.write(J{"t": "final", "trace": k, "id": 0, "op": J{"op": ""}, "ok": true, "res": J{"ok": true}, "obs": J{"limit": limit, "busy": busy, "ob": ob}})
	}
	k := partitionRemoveRace(t, w, n)
	partitionShareRace(t, w, k)
}

// partitionShareRace lets a SetLimit that changes the total race an AddPartition, many times over: whichever takes effect
// first, once both have returned every registered partition's share is computed from the limit in force. Every history
// whose shares disagree with the limit, and a sample of the others, goes to PartitionLin (final observation with shares).
func partitionShareRace(t *testing.T, w *ndWriter, first int) {
	k := first
	iters := envInt("VERIF_SHARE_RACES", 3000)
	bad := 0
	for _, kind := range []string{"lookup", "predicate"} {
		cfg := partCfg{Kind: kind, Den: 16, Limit: 10, Objs: map[string]partObjCfg{
			"p0": {Name: "a", Num: 4, Match: []string{"a"}, Built: 1},
			"p1": {Name: "b", Num: 2, Match: []string{"b", "a"}, Built: 1},
			"p2": {Name: "z", Num: 8, Match: []string{"z"}, Built: 1},
		}, Init: []string{"p0", "p1"}, Variant: map[string]string{"unknown": "contract", "add": "contract"}}
		for it := 0; it < iters; it++ {
			s, err := newPartSUT(cfg)
			if err != nil {
				t.Fatal(err)
			}
			v := 20 + 10*(it%5)
			var seq int64
			var mu sync.Mutex
			var events []J
			ev := func(e J) {
				mu.Lock()
				e["seq"] = atomic.AddInt64(&seq, 1)
				events = append(events, e)
				mu.Unlock()
			}
			start := make(chan struct{})
			startAdd := start
			// the first iterations force the overlap instead of sampling it: a partition's own mutex is held (its Acquire is
			// parked while it emits its in-flight sample), SetLimit is started and stalls at that partition's share, then
			// AddPartition is started, then the partition is let go
			held := it < 24
			var resume chan struct{}
			heldWait := func() {}
			if held {
				parked := make(chan struct{})
				resume = make(chan struct{})
				startAdd = make(chan struct{})
				var once int32
				s.reg.Park = func() {
					if atomic.CompareAndSwapInt32(&once, 0, 1) {
						close(parked)
						<-resume
					}
				}
				heldDone := make(chan struct{})
				go func() {
					defer close(heldDone)
					if s.lookup != nil {
						s.lobj["p0"].Acquire()
						s.lobj["p0"].Release()
					} else {
						s.pobj["p0"].Acquire()
						s.pobj["p0"].Release()
					}
				}()
				select {
				case <-parked:
				case <-time.After(time.Second):
					t.Fatal("share race: the partition's Acquire did not reach its sample listener")
				}
				heldWait = func() { <-heldDone }
			}
			var wg sync.WaitGroup
			wg.Add(2)
			go func() {
				defer wg.Done()
				<-start
				ev(J{"t": "b", "id": 1, "op": J{"op": "set", "v": v}, "ok": true, "res": J{"ok": true}})
				s.strat().SetLimit(v)
				ev(J{"t": "e", "id": 1, "op": J{"op": ""}, "ok": true, "res": J{"ok": true}})
			}()
			go func() {
				defer wg.Done()
				<-startAdd
				ev(J{"t": "b", "id": 2, "op": J{"op": "add", "obj": "p2"}, "ok": true, "res": J{"ok": true}})
				var ok bool
				if s.lookup != nil {
					ok = s.lookup.AddPartition("z", s.lobj["p2"])
				} else {
					ok = s.pred.AddPartition(s.pobj["p2"])
				}
				ev(J{"t": "e", "id": 2, "op": J{"op": ""}, "ok": ok, "res": J{"ok": ok}})
			}()
			close(start)
			if held {
				time.Sleep(2 * time.Millisecond)
				close(startAdd)
				time.Sleep(2 * time.Millisecond)
				close(resume)
			}
			wg.Wait()
			heldWait()
			if held {
				s.reg.mu.Lock()
				s.reg.Park = nil
				s.reg.mu.Unlock()
			}
			limit, busy := s.totals()
			share := func(num int) int {
				x := (limit*num + 15) / 16
				if x < 1 {
					x = 1
				}
				return x
			}
			bl := J{"p0": s.objLimit("p0"), "p1": s.objLimit("p1"), "p2": s.objLimit("p2")}
			mismatch := bl["p0"] != share(4) || bl["p1"] != share(2) || bl["p2"] != share(8)
			if mismatch {
				bad++
			}
			if mismatch && bad <= 20 || it%300 == 0 || held {
				w.write(J{"t": "reset", "trace": k, "cfg": cfg, "id": 0, "op": J{"op": ""}, "ok": true, "res": J{"ok": true}})
				for _, e := range events {
					e["trace"] = k
					w.write(e)
				}
				w.write(J{"t": "final", "trace": k, "id": 0, "op": J{"op": ""}, "ok": true, "res": J{"ok": true},
					"obs": J{"limit": limit, "busy": busy, "ob": J{"p0": 0, "p1": 0, "p2": 0}, "bl": bl}})
				k++
			}
		}
	}
}

// partitionRemoveRace appends deterministic real-time histories: a TryAcquire is parked inside the predicate of the
// partition it matches while a removal of that partition is started (bounded wait: on this tree the acquirer holds the
// strategy's mutex while predicates run, so the removal waits), then the acquirer is let go. Whatever the order the two
// take effect in, what the removal saw (the in-flight count of each partition it removed) and what the acquirer got
// must be explained by one of the two serial orders (PartitionLin).
func partitionRemoveRace(t *testing.T, w *ndWriter, first int) int {
	k := first
	for rep := 0; rep < 6; rep++ {
		cfg := partCfg{Kind: "predicate", Den: 16, Limit: 1 + rep%3, Objs: map[string]partObjCfg{
			"p0": {Name: "a", Num: 8, Match: []string{"a", "q"}, Built: 1},
			"p1": {Name: "b", Num: 4, Match: []string{"b", "a"}, Built: 1},
		}, Init: []string{"p0", "p1"}, Variant: map[string]string{"unknown": "contract", "add": "contract"}}
		s, err := newPartSUT(cfg)
		if err != nil {
			t.Fatal(err)
		}
		var mu sync.Mutex
		var events []J
		var seq, ids int64
		beginRes := func(op J) func(ok bool, res J) {
			id := atomic.AddInt64(&ids, 1)
			mu.Lock()
			events = append(events, J{"t": "b", "id": id, "op": op, "seq": atomic.AddInt64(&seq, 1), "ok": true, "res": J{"ok": true}})
			mu.Unlock()
			return func(ok bool, res J) {
				mu.Lock()
				events = append(events, J{"t": "e", "id": id, "op": J{"op": ""}, "ok": ok, "res": res, "seq": atomic.AddInt64(&seq, 1)})
				mu.Unlock()
			}
		}
		try := func(key string) {
			end := beginRes(J{"op": "try", "key": key})
			_, ok := s.pred.TryAcquire(keyCtx("predicate", key))
			end(ok, J{"ok": ok})
		}
		if rep%2 == 1 {
			try("a") // a token of p0 is already out
		}
		parked, resume := make(chan struct{}), make(chan struct{})
		var once sync.Once
		s.parkObj = "p0"
		s.parkTry = func() { once.Do(func() { close(parked); <-resume }) }
		doneA, doneB := make(chan struct{}), make(chan struct{})
		go func() { try("a"); close(doneA) }()
		select {
		case <-parked:
		case <-time.After(2 * time.Second):
			t.Fatal("the acquirer never reached the predicate of p0")
		}
		go func() {
			end := beginRes(J{"op": "rem", "key": []string{"a", "q"}[rep%2]})
			ok, removed, counts, _ := s.removeMatching([]string{"a", "q"}[rep%2])
			end(ok, J{"ok": ok, "removed": removed, "counts": counts})
			close(doneB)
		}()
		select {
		case <-doneB:
		case <-time.After(5 * time.Millisecond):
		}
		close(resume)
		<-doneA
		<-doneB
		s.parkTry = nil
		w.write(J{"t": "reset", "trace": k, "cfg": cfg, "id": 0, "op": J{"op": ""}, "ok": true, "res": J{"ok": true}})
		for _, e := range events {
			e["trace"] = k
			w.write(e)
		}
		limit, busy := s.totals()
		ob := J{}
		for _, id := range s.ids {
			ob[id] = s.objBusy(id)
		}
		w.write(J{"t": "final", "trace": k, "id": 0, "op": J{"op": ""}, "ok": true, "res": J{"ok": true}, "obs": J{"limit": limit, "busy": busy, "ob": ob}})
		k++
	}
	return k
}
