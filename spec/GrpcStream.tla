--------------------------------- MODULE GrpcStream ---------------------------------
(* Implementation-shaped model of the server-stream wrapper (grpc/grpc_streaming.go) with one   *)
(* RecvMsg and one SendMsg in flight on the same wrapped stream - gRPC lets one goroutine       *)
(* receive while another sends - for C14's "complete the acquired token exactly once, with the   *)
(* outcome chosen by the response classifier configured for that call".                          *)
(*                                                                                               *)
(*   RecvMsg / SendMsg:  tok, ok := limiter[d].Acquire(ctx)      Begin(d)                         *)
(*                       !ok: return the limit-exceeded status   (Begin, refused)                 *)
(*                       err := ServerStream.XxxMsg(m)           (in the transport until Leave)   *)
(*                       complete tok with classifier[d] / success   End(d)                       *)
(*                                                                                               *)
(* As implemented the acquired listener is a local variable of the call (SharedSlot = FALSE).    *)
(* SharedSlot = TRUE is the refactoring that parks it in a field of the per-stream wrapper       *)
(* (begin / end helpers): TLC shows it breaks ExactlyOnce as soon as the two directions overlap. *)
(* The harness runs the same four overlapping orders on the real wrapper (TestGrpcDuplex) and    *)
(* validates each operation's observation against the per-operation contract spec/Grpc.tla.      *)
EXTENDS Integers, Sequences, FiniteSets, TLC

CONSTANTS SharedSlot

Dir == {"recv", "send"}
None == "-"

VARIABLES
  pc,        \* [Dir -> "idle" | "transport" | "done"]
  granted,   \* [Dir -> BOOLEAN]   the limiter's answer for the operation
  local,     \* [Dir -> token]     the call's local variable (a token is named after its limiter)
  slot,      \* token              the wrapper's field (SharedSlot = TRUE only)
  log        \* sequence of completions <<token, classifier used>>
vars == <<pc, granted, local, slot, log>>

Init == /\ pc = [d \in Dir |-> "idle"] /\ granted = [d \in Dir |-> FALSE]
        /\ local = [d \in Dir |-> None] /\ slot = None /\ log = <<>>

Begin(d, g) ==
  /\ pc[d] = "idle"
  /\ granted' = [granted EXCEPT ![d] = g]
  /\ IF g
     THEN /\ pc' = [pc EXCEPT ![d] = "transport"]
          /\ IF SharedSlot THEN slot' = d /\ UNCHANGED local
                           ELSE local' = [local EXCEPT ![d] = d] /\ UNCHANGED slot
     ELSE pc' = [pc EXCEPT ![d] = "done"] /\ UNCHANGED <<local, slot>>
  /\ UNCHANGED log

(* the underlying stream operation returns (with or without an error): the token is completed with *)
(* the classification of this direction                                                             *)
End(d) ==
  /\ pc[d] = "transport"
  /\ pc' = [pc EXCEPT ![d] = "done"]
  /\ IF SharedSlot
     THEN /\ log' = IF slot = None THEN log ELSE Append(log, <<slot, d>>)
          /\ slot' = None /\ UNCHANGED local
     ELSE /\ log' = Append(log, <<local[d], d>>)
          /\ local' = [local EXCEPT ![d] = None] /\ UNCHANGED slot
  /\ UNCHANGED granted

Next == \E d \in Dir : (\E g \in BOOLEAN : Begin(d, g)) \/ End(d)
Spec == Init /\ [][Next]_vars

Completions(t) == {i \in 1..Len(log) : log[i][1] = t}

(* a token is never completed twice, and never with the other direction's classification *)
AtMostOnce == \A d \in Dir : Cardinality(Completions(d)) <= 1 /\ \A i \in Completions(d) : log[i][2] = d
(* once an operation has returned, its token (if it got one) has been completed exactly once *)
ExactlyOnce == \A d \in Dir : pc[d] = "done" => Cardinality(Completions(d)) = (IF granted[d] THEN 1 ELSE 0)
=================================================================================
