--------------------------------- MODULE GateTrace ---------------------------------
(* The atomic counting gate of C01 as a linearizability checker for recorded concurrent        *)
(* histories of real limiters / strategies (code -> model).  The harness logs, with one atomic *)
(* sequence counter, the begin and the end of every call of free-running goroutines:           *)
(*    acq  (Acquire / TryAcquire, result ok)   rel (completion of a token)                     *)
(*    set  (strategy.SetLimit(v), logged by a recording wrapper around the real strategy)      *)
(* The contract: each call takes effect atomically at some instant between its begin and its   *)
(* end - acq is granted iff tokens out < limit at that instant (and refused iff not), rel      *)
(* gives one token back, set installs max(1, v) and revokes nothing.  TLC searches for the     *)
(* hidden linearisation points (Lin steps); a history is accepted iff the search can consume   *)
(* all of its lines.  Several histories are concatenated ("reset" lines).  Acceptance uses the *)
(* high-water mark idiom (TLCSet/TLCGet register 1, single worker).                            *)
(* With CheckN the end of an acq also carries the in-flight sample the strategy emitted for   *)
(* that call (n, -1 if none was seen): it must be the count at the linearisation point - the  *)
(* count including the new token for a grant, the count that caused the refusal otherwise     *)
(* (C20: in-flight samples equal the in-flight count at the admission decision).              *)
EXTENDS Integers, Sequences, FiniteSets, TLC, Json, IOUtils

CONSTANT CheckN

Log == ndJsonDeserialize(IOEnv.VERIF_TRACE)

VARIABLES l, held, limit, open, maxForce
vars == <<l, held, limit, open, maxForce>>

Max(a, b) == IF a > b THEN a ELSE b

Init == l = 1 /\ held = 0 /\ limit = 1 /\ open = <<>> /\ maxForce = 1 /\ TLCSet(1, 0)

Ids == DOMAIN open

ReadReset ==
  /\ l <= Len(Log) /\ Log[l].t = "reset" /\ Ids = {}
  /\ l' = l + 1 /\ held' = 0 /\ limit' = Log[l].limit /\ maxForce' = Log[l].limit /\ open' = <<>>

ReadBegin ==
  /\ l <= Len(Log) /\ Log[l].t = "b"
  /\ l' = l + 1
  /\ open' = [i \in Ids \cup {Log[l].id} |->
                IF i = Log[l].id THEN [kind |-> Log[l].kind, v |-> Log[l].v, lin |-> FALSE, res |-> FALSE, cnt |-> -1] ELSE open[i]]
  /\ UNCHANGED <<held, limit, maxForce>>

Lin(i) ==
  /\ ~open[i].lin
  /\ CASE open[i].kind = "acq" ->
            /\ open' = [open EXCEPT ![i].lin = TRUE, ![i].res = held < limit, ![i].cnt = IF held < limit THEN held + 1 ELSE held]
            /\ held' = IF held < limit THEN held + 1 ELSE held
            /\ UNCHANGED <<limit, maxForce>>
       [] open[i].kind = "rel" ->
            /\ held > 0
            /\ open' = [open EXCEPT ![i].lin = TRUE]
            /\ held' = held - 1
            /\ maxForce' = IF held - 1 = 0 THEN limit ELSE maxForce
            /\ UNCHANGED limit
       [] open[i].kind = "set" ->
            /\ open' = [open EXCEPT ![i].lin = TRUE]
            /\ limit' = Max(1, open[i].v)
            /\ maxForce' = IF held = 0 THEN Max(1, open[i].v) ELSE Max(maxForce, Max(1, open[i].v))
            /\ UNCHANGED held
  /\ UNCHANGED l

ReadEnd ==
  /\ l <= Len(Log) /\ Log[l].t = "e"
  /\ LET i == Log[l].id IN
     /\ i \in Ids /\ open[i].lin
     /\ open[i].kind = "acq" => open[i].res = Log[l].ok
     /\ (CheckN /\ open[i].kind = "acq" /\ Log[l].n >= 0) => open[i].cnt = Log[l].n
     /\ open' = [j \in Ids \ {i} |-> open[j]]
  /\ l' = l + 1
  /\ UNCHANGED <<held, limit, maxForce>>

(* the driver's watchdog: nothing has returned for most of a minute, Log[l].pending calls are still open. For a pool that is   *)
(* acceptable only while the capacity is in use - callers pending with capacity free is not a behaviour of the gate (C19). *)
ReadStuck ==
  /\ l <= Len(Log) /\ Log[l].t = "stuck"
  /\ ~(held < limit /\ Log[l].v > 0)
  /\ l' = l + 1 /\ open' = <<>>
  /\ UNCHANGED <<held, limit, maxForce>>

Next == ReadReset \/ ReadBegin \/ ReadEnd \/ ReadStuck \/ \E i \in Ids : Lin(i)

(* consequence of the contract, evaluated in every state of the search *)
NeverOver == held <= maxForce

Mark == TLCSet(1, Max(TLCGet(1), l - 1))
Report == PrintT(<<"MARK", TLCGet(1)>>)
=================================================================================
