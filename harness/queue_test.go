//go:build verif

package harness

import (
	"encoding/json"
	"path/filepath"
	"testing"
	"time"

	"github.com/platinummonkey/go-concurrency-limits/core"
	"github.com/platinummonkey/go-concurrency-limits/limiter"
)

// queueCfg mirrors the "C" record printed by spec/QueueBlocking.tla.
type queueCfg struct {
	Kind        string   `json:"kind"`
	Limit       int      `json:"limit"`
	QMax        int      `json:"qmax"`
	QTimeout    int      `json:"qtimeout"`
	EvictCtx    bool     `json:"evictctx"`
	Ordering    string   `json:"ordering"`
	Procs       []string `json:"procs"`
	Cancellable []string `json:"cancellable"`
	Horizon     int      `json:"horizon"`
	Deadline    int      `json:"deadline"`
	Expect      string   `json:"expect"`
	Blackbox    bool     `json:"blackbox"`
	AllServed   bool     `json:"allserved"`
	Ctor        string   `json:"ctor,omitempty"`
}

func buildQueue(t testing.TB, cfg queueCfg) *scenario {
	c := newController("acq.enter", "acq.exit", "rel.exit", "queue.afterPush")
	s := newScenario(t, c, cfg.Procs)
	c.emit = s.ev
	limiter.VerifPoint = func(point string) { c.gate(point, nil) }
	dl, busy, err := newDelegate(cfg.Limit, false)
	if err != nil {
		t.Fatal(err)
	}
	gl := &GatedLimiter{c: c, inner: dl}
	reg := newRecordingRegistry()
	to := time.Duration(cfg.QTimeout) * tickDur
	if cfg.QTimeout <= 0 {
		to = -1 // no timer (0 would select the default of one second)
	}
	ord := limiter.OrderingFIFO
	if cfg.Ordering == "lifo" {
		ord = limiter.OrderingLIFO
	}
	q := limiter.NewQueueBlockingLimiterFromConfig(gl, limiter.QueueLimiterConfig{
		Ordering: ord, MaxBacklogSize: cfg.QMax, MaxBacklogTimeout: to, BacklogEvictDoneCtx: cfg.EvictCtx, MetricRegistry: reg,
	})
	s.lim = q
	s.extra = func() J {
		qs, _ := reg.GaugeByID(core.MetricQueueSize)
		return J{"busy": busy(), "gauge": int(dl.VerifInFlight()), "q": qs}
	}
	return s
}

// TestQueueReplay drives the real QueueBlockingLimiter through every transition of the TLC state
// graphs of spec/QueueBlocking.tla and records the executions for validation against the
// contract (spec/WrapperTrace.tla).
func TestQueueReplay(t *testing.T) {
	files, _ := filepath.Glob(filepath.Join(filepath.Dir(inFile(t, "x")), "queue_*.ndjson"))
	if len(files) == 0 {
		t.Fatal("no queue_*.ndjson graphs")
	}
	w := newNdWriter(t, filepath.Join(outDir(t), "queue_trace.ndjson"))
	defer w.close()
	var reps []*schedReport
	base := 0
	for _, f := range files {
		g := loadSGraph(t, f)
		var cfg queueCfg
		if err := json.Unmarshal(g.cfg, &cfg); err != nil {
			t.Fatal(err)
		}
		paths := g.coverPaths(300)
		rep := &schedReport{Graph: filepath.Base(f), States: len(g.adj), Edges: len(g.edges)}
		runSchedules(t, g, paths, w, rep, base, func(t testing.TB) *scenario { return buildQueue(t, cfg) }, cfg, cfg.Horizon)
		base += len(paths)
		t.Logf("%s: states=%d edges=%d scenarios=%d steps=%d conform=%d infeasible=%d diverged=%d leaked=%d", filepath.Base(f), rep.States, rep.Edges, rep.Scenarios, rep.Steps, rep.Conform, rep.Infeasible, rep.Diverged, rep.Leaked)
		reps = append(reps, rep)
	}
	writeJSON(t, filepath.Join(outDir(t), "queue_replay.json"), reps)
}
