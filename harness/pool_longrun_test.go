//go:build verif

package harness

import (
	"context"
	"fmt"
	"path/filepath"
	"sync"
	"sync/atomic"
	"testing"
	"testing/synctest"
	"time"

	"github.com/platinummonkey/go-concurrency-limits/patterns/pool"
)

// TestPoolLongRun keeps fixed pools busy for long enough that their sample windows close (more completions than the
// window size, each held longer than the minimum RTT threshold, on the virtual clock of a bubble) while other tokens are
// held: whatever the limiter and its strategy do at a window close, the pool stays a counting gate. The history of
// begin / end events of every Acquire and release goes to spec/GateTrace.tla (C19: never more than the limit held).
func TestPoolLongRun(t *testing.T) {
	w := newNdWriter(t, filepath.Join(outDir(t), "pool_gate_trace.ndjson"))
	defer w.close()
	k := 0
	orderings := []pool.Ordering{pool.OrderingFIFO, pool.OrderingLIFO, pool.OrderingRandom}
	for rep := 0; rep < envInt("VERIF_N", 2); rep++ {
		for oi, ord := range orderings {
			for _, lim := range []int{1, 2, 3} {
				var mu sync.Mutex
				var events []J
				var seq, ids int64
				begin := func(kind string) func(ok bool) {
					id := atomic.AddInt64(&ids, 1)
					mu.Lock()
					events = append(events, J{"t": "b", "id": id, "kind": kind, "v": 0, "ok": true, "n": -1, "seq": atomic.AddInt64(&seq, 1)})
					mu.Unlock()
					return func(ok bool) {
						mu.Lock()
						events = append(events, J{"t": "e", "id": id, "kind": "", "v": 0, "ok": ok, "n": -1, "seq": atomic.AddInt64(&seq, 1)})
						mu.Unlock()
					}
				}
				synctest.Test(t, func(t *testing.T) {
					windowSize := 10 + 5*rep
					p, err := pool.NewFixedPool(fmt.Sprintf("long-%d", k), ord, lim, windowSize, 20*time.Millisecond, 40*time.Millisecond, 5*time.Millisecond, 8, -1, nil, nil)
					if err != nil {
						t.Fatal(err)
					}
					var wg sync.WaitGroup
					workers := lim + 2
					for g := 0; g < workers; g++ {
						wg.Add(1)
						go func(g int) {
							defer wg.Done()
							r := newRng(seed()+uint64(k), uint64(g))
							for i := 0; i < 3*windowSize; i++ {
								end := begin("acq")
								l, ok := p.Acquire(context.Background())
								end(ok && l != nil)
								if !ok || l == nil {
									time.Sleep(time.Millisecond)
									continue
								}
								time.Sleep(time.Duration(6+r.intn(9)) * time.Millisecond) // longer than the RTT threshold
								end = begin("rel")
								switch r.intn(5) {
								case 0:
									l.OnDropped()
								case 1:
									l.OnIgnore()
								default:
									l.OnSuccess()
								}
								end(true)
							}
						}(g)
					}
					wg.Wait()
				})
				w.write(J{"t": "reset", "trace": k, "kind": "fixedpool-" + []string{"fifo", "lifo", "random"}[oi], "limit": lim, "id": 0, "v": 0, "ok": true, "n": -1})
				for _, e := range events {
					e["trace"] = k
					w.write(e)
				}
				k++
			}
		}
	}
	writeJSON(t, filepath.Join(outDir(t), "pool_longrun.json"), J{"histories": k})
}
