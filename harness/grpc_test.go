//go:build verif

package harness

import (
	"context"
	"encoding/json"
	"errors"
	"fmt"
	"path/filepath"
	"sync"
	"testing"
	"testing/synctest"
	"time"

	golangGrpc "google.golang.org/grpc"
	"google.golang.org/grpc/codes"
	"google.golang.org/grpc/metadata"
	"google.golang.org/grpc/status"

	"github.com/platinummonkey/go-concurrency-limits/core"
	grpclimit "github.com/platinummonkey/go-concurrency-limits/grpc"
)

type grpcCfg struct {
	Custom   bool `json:"custom"`
	CustomLE bool `json:"customle"`
	Named    int  `json:"named"` // name / tag options: 0 none, 1 before the other options, 2 after them (no effect on the contract)
}

type grpcOp struct {
	Kind   string `json:"kind"`
	Grant  bool   `json:"grant"`
	Err    bool   `json:"err"`
	Cls    string `json:"cls"`
	LeCode string `json:"lecode"`
	LeErr  string `json:"leerr"`            // the error value of the custom limit-exceeded classifier: plain | status (itself a gRPC status of another code) | wrapped
	Ctx    string `json:"ctx"`              // live | cancelled (while the wrapped call runs) | expired
	Dur    string `json:"dur,omitempty"`    // "slow": the wrapped call takes two seconds (run inside a bubble)
	OGrant *bool  `json:"ogrant,omitempty"` // chained interceptors: whether the outer layer's limiter grants
}

// grpcRec is the shared recorder of the doubles of one intercepted operation.
type grpcRec struct {
	mu        sync.Mutex
	asked     []string
	completed []J
	ran       int
	grant     bool
	grantBy   map[string]bool // per limiter, for operations that overlap
}

// grpcMsg is the message of an overlapping stream operation: it carries what the doubles need to answer for
// this operation (the code the custom limit-exceeded classifier must choose, the response classification).
type grpcMsg struct{ le, cls, leerr string }

type recLimiter struct {
	name string
	r    *grpcRec
}

type recGrpcListener struct {
	name string
	r    *grpcRec
}

func (l *recGrpcListener) done(o string) {
	l.r.mu.Lock()
	l.r.completed = append(l.r.completed, J{"lim": l.name, "outcome": o})
	l.r.mu.Unlock()
}
func (l *recGrpcListener) OnSuccess() { l.done("success") }
func (l *recGrpcListener) OnIgnore()  { l.done("ignore") }
func (l *recGrpcListener) OnDropped() { l.done("dropped") }

func (l *recLimiter) Acquire(ctx context.Context) (core.Listener, bool) {
	l.r.mu.Lock()
	defer l.r.mu.Unlock()
	l.r.asked = append(l.r.asked, l.name)
	g := l.r.grant
	if v, ok := l.r.grantBy[l.name]; ok {
		g = v
	}
	if !g {
		return nil, false
	}
	return &recGrpcListener{name: l.name, r: l.r}, true
}
func (l *recLimiter) String() string { return "recLimiter(" + l.name + ")" }

type fakeStream struct {
	ctx    context.Context
	r      *grpcRec
	err    error
	during func()
}

func (f *fakeStream) SetHeader(metadata.MD) error  { return nil }
func (f *fakeStream) SendHeader(metadata.MD) error { return nil }
func (f *fakeStream) SetTrailer(metadata.MD)       {}
func (f *fakeStream) Context() context.Context     { return f.ctx }
func (f *fakeStream) SendMsg(m interface{}) error {
	f.r.mu.Lock()
	f.r.ran++
	f.r.mu.Unlock()
	if f.during != nil {
		f.during()
	}
	return f.err
}
func (f *fakeStream) RecvMsg(m interface{}) error {
	f.r.mu.Lock()
	f.r.ran++
	f.r.mu.Unlock()
	if f.during != nil {
		f.during()
	}
	return f.err
}

var errInner = errors.New("inner failure")

func clsOf(s string) grpclimit.ResponseType {
	switch s {
	case "ignore":
		return grpclimit.ResponseTypeIgnore
	case "dropped":
		return grpclimit.ResponseTypeDropped
	}
	return grpclimit.ResponseTypeSuccess
}

// grpcStack is one set of interceptors (unary server, unary client, stream) built once from a configuration
// and used for a whole sequence of operations; the doubles read the current operation from it.
type grpcStack struct {
	rec *grpcRec
	op  grpcOp
	us  golangGrpc.UnaryServerInterceptor
	uc  golangGrpc.UnaryClientInterceptor
	ss  golangGrpc.StreamServerInterceptor
	// a second set built from the same options over limiters of its own ("o.main", "o.recv", "o.send"): the outer layer
	// of a chain
	ous golangGrpc.UnaryServerInterceptor
	ouc golangGrpc.UnaryClientInterceptor
	oss golangGrpc.StreamServerInterceptor
}

func leCode(req interface{}) codes.Code {
	if s, _ := req.(string); s == "Aborted" {
		return codes.Aborted
	}
	if m, ok := req.(grpcMsg); ok && m.le == "Aborted" {
		return codes.Aborted
	}
	return codes.Unavailable
}

func newGrpcStack(cfg grpcCfg) *grpcStack {
	st := &grpcStack{rec: &grpcRec{}}
	le := func(ctx context.Context, method string, req interface{}, l core.Limiter) (interface{}, codes.Code, error) {
		// the verdict is the code; the error only supplies the message - even when it is a gRPC status of its own
		kind := st.op.LeErr
		if m, ok := req.(grpcMsg); ok {
			kind = m.leerr
		}
		switch kind {
		case "status":
			return nil, leCode(req), status.Error(codes.DeadlineExceeded, "custom limit exceeded")
		case "wrapped":
			return nil, leCode(req), fmt.Errorf("custom limit exceeded: %w", status.Error(codes.PermissionDenied, "upstream"))
		}
		return nil, leCode(req), fmt.Errorf("custom limit exceeded")
	}
	uopts := []grpclimit.InterceptorOption{grpclimit.WithLimiter(&recLimiter{"main", st.rec})}
	sopts := []grpclimit.StreamInterceptorOption{
		grpclimit.WithStreamRecvLimiter(&recLimiter{"recv", st.rec}), grpclimit.WithStreamSendLimiter(&recLimiter{"send", st.rec})}
	if cfg.CustomLE {
		uopts = append(uopts, grpclimit.WithLimitExceededResponseClassifier(le))
		sopts = append(sopts, grpclimit.WithStreamRecvLimitExceededResponseClassifier(le), grpclimit.WithStreamSendLimitExceededResponseClassifier(le))
	}
	if cfg.Custom {
		uopts = append(uopts, grpclimit.WithServerResponseTypeClassifier(func(ctx context.Context, req interface{}, info *golangGrpc.UnaryServerInfo, resp interface{}, err error) grpclimit.ResponseType {
			return clsOf(st.op.Cls)
		}), grpclimit.WithClientResponseTypeClassifier(func(ctx context.Context, method string, req, reply interface{}, err error) grpclimit.ResponseType {
			return clsOf(st.op.Cls)
		}))
		f := func(ctx context.Context, req interface{}, info *golangGrpc.StreamServerInfo, err error) grpclimit.ResponseType {
			if m, ok := req.(grpcMsg); ok {
				return clsOf(m.cls)
			}
			return clsOf(st.op.Cls)
		}
		sopts = append(sopts, grpclimit.WithStreamClientResponseTypeClassifier(f), grpclimit.WithStreamServerResponseTypeClassifier(f))
	}
	switch cfg.Named {
	case 1:
		uopts = append([]grpclimit.InterceptorOption{grpclimit.WithName("verif"), grpclimit.WithTags([]string{"k:v"})}, uopts...)
		sopts = append([]grpclimit.StreamInterceptorOption{grpclimit.WithStreamRecvName("verif-recv"), grpclimit.WithStreamSendName("verif-send")}, sopts...)
	case 2:
		uopts = append(uopts, grpclimit.WithName("verif"), grpclimit.WithTags([]string{"k:v"}))
		sopts = append(sopts, grpclimit.WithStreamRecvName("verif-recv"), grpclimit.WithStreamSendName("verif-send"))
	}
	st.us = grpclimit.UnaryServerInterceptor(uopts...)
	st.uc = grpclimit.UnaryClientInterceptor(uopts...)
	st.ss = grpclimit.StreamServerInterceptor(sopts...)
	// later options win: the same options with the outer layer's limiters appended
	ouopts := append(append([]grpclimit.InterceptorOption{}, uopts...), grpclimit.WithLimiter(&recLimiter{"o.main", st.rec}))
	osopts := append(append([]grpclimit.StreamInterceptorOption{}, sopts...),
		grpclimit.WithStreamRecvLimiter(&recLimiter{"o.recv", st.rec}), grpclimit.WithStreamSendLimiter(&recLimiter{"o.send", st.rec}))
	st.ous = grpclimit.UnaryServerInterceptor(ouopts...)
	st.ouc = grpclimit.UnaryClientInterceptor(ouopts...)
	st.oss = grpclimit.StreamServerInterceptor(osopts...)
	return st
}

// run executes one intercepted operation on the real interceptors and returns the observation record of
// spec/Grpc.tla. The request / message is the status code name the custom limit-exceeded classifier must choose.
func (st *grpcStack) run(op grpcOp) (obs J, err error) {
	defer func() {
		if r := recover(); r != nil {
			err = fmt.Errorf("panic: %v", r)
		}
	}()
	rec := st.rec
	rec.mu.Lock()
	rec.asked, rec.completed, rec.ran, rec.grant = nil, nil, 0, op.Grant
	rec.mu.Unlock()
	st.op = op
	var inner error
	if op.Err {
		inner = errInner
	}
	resp := &struct{ x int }{7}
	var ret error
	var gotResp interface{}
	ctx, cancel := context.WithCancel(context.Background())
	defer cancel()
	if op.Ctx == "expired" {
		var c2 context.CancelFunc
		ctx, c2 = context.WithDeadline(ctx, time.Now().Add(-time.Second))
		defer c2()
	}
	during := func() { // what happens to the context, and how long it takes, while the wrapped call runs
		if op.Ctx == "cancelled" {
			cancel()
		}
		if op.Dur == "slow" {
			time.Sleep(2 * time.Second)
		}
	}
	req := op.LeCode
	handler := func(ctx context.Context, req interface{}) (interface{}, error) {
		rec.mu.Lock()
		rec.ran++
		rec.mu.Unlock()
		during()
		return resp, inner
	}
	invoker := func(ctx context.Context, method string, req, reply interface{}, cc *golangGrpc.ClientConn, opts ...golangGrpc.CallOption) error {
		rec.mu.Lock()
		rec.ran++
		rec.mu.Unlock()
		during()
		return inner
	}
	streamHandler := func(srv interface{}, ss golangGrpc.ServerStream) error {
		if op.Kind == "recv" {
			return ss.RecvMsg(req)
		}
		return ss.SendMsg(req)
	}
	chained := op.OGrant != nil
	if chained {
		rec.mu.Lock()
		rec.grantBy = map[string]bool{"o.main": *op.OGrant, "o.recv": *op.OGrant, "o.send": *op.OGrant}
		rec.mu.Unlock()
		defer func() {
			rec.mu.Lock()
			rec.grantBy = nil
			rec.mu.Unlock()
		}()
	}
	switch op.Kind {
	case "unaryServer":
		info := &golangGrpc.UnaryServerInfo{FullMethod: "/svc/M"}
		if chained {
			// what grpc.ChainUnaryInterceptor builds: the outer interceptor's handler is the inner interceptor
			gotResp, ret = st.ous(ctx, req, info, func(ctx context.Context, req interface{}) (interface{}, error) {
				return st.us(ctx, req, info, handler)
			})
		} else {
			gotResp, ret = st.us(ctx, req, info, handler)
		}
	case "unaryClient":
		if chained {
			ret = st.ouc(ctx, "/svc/M", req, resp, nil, func(ctx context.Context, method string, req, reply interface{}, cc *golangGrpc.ClientConn, opts ...golangGrpc.CallOption) error {
				return st.uc(ctx, method, req, reply, cc, invoker, opts...)
			})
		} else {
			ret = st.uc(ctx, "/svc/M", req, resp, nil, invoker)
		}
		gotResp = resp
	case "recv", "send":
		info := &golangGrpc.StreamServerInfo{FullMethod: "/svc/S"}
		fs := &fakeStream{ctx: ctx, r: rec, err: inner, during: during}
		if chained {
			// grpc.ChainStreamInterceptor: each interceptor wraps the stream it is given, so the wrapper created last is the one
			// the handler's RecvMsg / SendMsg enters first - the "outer layer" of an operation is the interceptor chained last
			ret = st.ss(nil, fs, info, func(srv interface{}, ss golangGrpc.ServerStream) error {
				return st.oss(srv, ss, info, streamHandler)
			})
		} else {
			ret = st.ss(nil, fs, info, streamHandler)
		}
		gotResp = resp
	default:
		return nil, fmt.Errorf("unknown kind %q", op.Kind)
	}
	code, same := "OK", true
	if ret != nil {
		if ret == inner && inner != nil {
			code = "inner"
		} else {
			code = status.Code(ret).String()
			same = false
		}
	}
	if op.Grant && gotResp != resp {
		same = false
	}
	rec.mu.Lock()
	defer rec.mu.Unlock()
	asked := append([]string{}, rec.asked...)
	completed := append([]J{}, rec.completed...)
	return J{"asked": asked, "ran": rec.ran, "completed": completed, "code": code, "same": same}, nil
}

func runGrpcOp(cfg grpcCfg, op grpcOp) (J, error) { return newGrpcStack(cfg).run(op) }

// TestGrpcCases executes every case TLC enumerated from spec/GrpcMC.tla on the real interceptors.
func TestGrpcCases(t *testing.T) {
	var mism []J
	n := 0
	for _, raw := range readNd(t, inFile(t, "grpc_cases.ndjson")) {
		var c struct {
			Cfg grpcCfg         `json:"cfg"`
			Op  grpcOp          `json:"op"`
			Exp json.RawMessage `json:"exp"`
		}
		if err := json.Unmarshal(raw, &c); err != nil {
			t.Fatal(err)
		}
		n++
		var obs J
		var err error
		if c.Op.Dur == "slow" {
			synctest.Test(t, func(t *testing.T) { obs, err = runGrpcOp(c.Cfg, c.Op) })
		} else {
			obs, err = runGrpcOp(c.Cfg, c.Op)
		}
		got := ""
		if err == nil {
			got = canonV(obs)
		}
		if err != nil || got != canon(c.Exp) {
			m := J{"cfg": c.Cfg, "op": c.Op, "expected": json.RawMessage(canon(c.Exp)), "got": json.RawMessage("null")}
			if err != nil {
				m["error"] = err.Error()
			} else {
				m["got"] = json.RawMessage(got)
			}
			mism = append(mism, m)
		}
	}
	writeJSON(t, filepath.Join(outDir(t), "grpc_cases.json"), J{"cases": n, "mismatches": mism})
}

// TestGrpcRandom records random sequences of intercepted operations (including RecvMsg / SendMsg
// sequences) for validation against the contract by TLC.
func TestGrpcRandom(t *testing.T) {
	n := envInt("VERIF_N", 2000)
	w := newNdWriter(t, filepath.Join(outDir(t), "grpc_trace.ndjson"))
	defer w.close()
	r := newRng(seed(), 77)
	kinds := []string{"unaryServer", "unaryClient", "recv", "send", "recv", "send"}
	cls := []string{"success", "ignore", "dropped"}
	var cfg grpcCfg
	var st *grpcStack
	for k := 0; k < n; k++ {
		if k%25 == 0 {
			// a new set of interceptors; the next 25 operations (a sequence of unary calls and of RecvMsg / SendMsg on
			// streams of the same interceptor) all go through it
			cfg = grpcCfg{Custom: r.chance(1, 2), CustomLE: r.chance(1, 2), Named: r.intn(3)}
			st = newGrpcStack(cfg)
		}
		op := grpcOp{Kind: r.pick(kinds), Grant: r.chance(3, 5), Err: r.chance(1, 2), Cls: r.pick(cls), LeCode: []string{"Unavailable", "Aborted"}[r.intn(2)], LeErr: []string{"plain", "status", "wrapped"}[r.intn(3)], Ctx: []string{"live", "live", "cancelled", "expired"}[r.intn(4)]}
		obs, err := st.run(op)
		if err != nil {
			obs = J{"asked": []string{}, "ran": -1, "completed": []J{}, "code": err.Error(), "same": false}
		}
		w.write(J{"trace": k, "cfg": cfg, "op": op, "obs": obs})
	}
}
