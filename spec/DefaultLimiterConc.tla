----------------------------- MODULE DefaultLimiterConc -----------------------------
(* Implementation-shaped model of the concurrency structure behind C01: DefaultLimiter.Acquire *)
(* (limiter mutex around strategy.TryAcquire), the simple strategy's load / compare / add as    *)
(* separate steps, the precise strategy's own mutex, completions that give the token back       *)
(* outside the limiter mutex and then fold / update under it, and sample-driven limit changes.  *)
(* The contract (Gate) is stated as invariants over it:                                         *)
(*   NeverOver       tokens out never exceed the largest limit in force since the oldest        *)
(*                   outstanding grant                                                          *)
(*   GrantHadRoom    at the increment the count is still below the limit in force               *)
(*   RefusedAtLimit  a refusal was decided on a count at or above the limit                     *)
(* LimiterLock = FALSE / StrategyLock = FALSE are the weakenings whose counterexample is the    *)
(* attack schedule realised by the harness (TestGateAttack): caller 1 parked between check and  *)
(* increment (hooks simple.afterCheck / precise.afterCheck), caller 2 admitted meanwhile.       *)
(* Incr = "cas" and Gauge = "store" are two further weakenings (seeded changes C01r4, C02r4):   *)
(* a completion is not behind the limiter mutex, so it can fall between an Acquire's check and   *)
(* its increment, and an Acquire can fall between a completion's two give-backs; the harness     *)
(* realises both (TestCompletionOverlap).                                                        *)
EXTENDS Integers, FiniteSets, TLC

CONSTANTS
  P,            \* callers
  Limits,       \* values the scripted algorithm may report at an update (floored at 1)
  Limit0,
  Direct,       \* TRUE: the strategy is used directly (no limiter mutex at all; precise strategy)
  LimiterLock,  \* FALSE: weakening - Acquire does not take the limiter mutex
  StrategyLock, \* TRUE: the strategy serialises check and increment itself (precise)
  Incr,         \* "add": the increment is unconditional (as implemented); "cas": compare-and-swap against the count
                \* loaded, refusing when it fails - a completion in between then refuses a caller with room
  Gauge,        \* "add": Acquire increments the limiter's in-flight gauge (as implemented); "store": it publishes the
                \* token's count - overwriting the decrement of a completion that is between gauge and token
  Rounds

NoProc == "-"
Max(a, b) == IF a > b THEN a ELSE b

VARIABLES
  pc,       \* idle | locked | checked | held | released | done
  loaded,   \* the in-flight count p read
  rounds,
  mu,       \* limiter mutex holder
  smu,      \* strategy mutex holder (precise)
  inflight, limit,
  gauge,    \* the limiter's own in-flight gauge (C02: one unit back per layer)
  maxForce, \* largest limit in force since the oldest outstanding grant (history)
  refusedAt \* history: [count, limit] of the last refusal decision, or <<>>
vars == <<pc, loaded, rounds, mu, smu, inflight, limit, gauge, maxForce, refusedAt>>

Init ==
  /\ pc = [p \in P |-> "idle"] /\ loaded = [p \in P |-> 0] /\ rounds = [p \in P |-> 0]
  /\ mu = NoProc /\ smu = NoProc /\ inflight = 0 /\ limit = Limit0 /\ maxForce = Limit0 /\ gauge = 0
  /\ refusedAt = <<>>

UsesMu == ~Direct /\ LimiterLock

(* Acquire: take the limiter mutex (if any), then the strategy's (if any) *)
AcqLock(p) ==
  /\ pc[p] = "idle" /\ rounds[p] < Rounds
  /\ UsesMu => mu = NoProc
  /\ StrategyLock => smu = NoProc
  /\ mu' = IF UsesMu THEN p ELSE mu
  /\ smu' = IF StrategyLock THEN p ELSE smu
  /\ pc' = [pc EXCEPT ![p] = "locked"]
  /\ UNCHANGED <<loaded, rounds, inflight, limit, gauge, maxForce, refusedAt>>

Unlock(p) ==
  /\ mu' = IF mu = p THEN NoProc ELSE mu
  /\ smu' = IF smu = p THEN NoProc ELSE smu

(* load the count, compare with the limit: refuse, or park at the hook before the increment *)
Check(p) ==
  /\ pc[p] = "locked"
  /\ loaded' = [loaded EXCEPT ![p] = inflight]
  /\ IF inflight >= limit
     THEN /\ pc' = [pc EXCEPT ![p] = "idle"] /\ rounds' = [rounds EXCEPT ![p] = @ + 1]
          /\ refusedAt' = <<inflight, limit>> /\ Unlock(p)
     ELSE /\ pc' = [pc EXCEPT ![p] = "checked"] /\ UNCHANGED <<rounds, refusedAt, mu, smu>>
  /\ UNCHANGED <<inflight, limit, gauge, maxForce>>

Add(p) ==
  /\ pc[p] = "checked"
  /\ IF Incr = "cas" /\ inflight # loaded[p]
     THEN \* the compare-and-swap lost to a completion (or a grant): refused on the spot
          /\ pc' = [pc EXCEPT ![p] = "idle"] /\ rounds' = [rounds EXCEPT ![p] = @ + 1]
          /\ refusedAt' = <<inflight, limit>>
          /\ UNCHANGED <<inflight, gauge>>
     ELSE /\ inflight' = inflight + 1
          /\ gauge' = IF Gauge = "add" THEN gauge + 1 ELSE inflight + 1
          /\ pc' = [pc EXCEPT ![p] = "held"]
          /\ UNCHANGED <<rounds, refusedAt>>
  /\ Unlock(p)
  /\ UNCHANGED <<loaded, limit, maxForce>>

(* completion: the gauge, then the strategy token, are given back outside the limiter mutex ... *)
GaugeBack(p) ==
  /\ pc[p] = "held"
  /\ gauge' = gauge - 1
  /\ pc' = [pc EXCEPT ![p] = "gaugeback"]
  /\ UNCHANGED <<loaded, rounds, mu, smu, inflight, limit, maxForce, refusedAt>>

Release(p) ==
  /\ pc[p] = "gaugeback"
  /\ StrategyLock => smu = NoProc
  /\ inflight' = inflight - 1
  /\ pc' = [pc EXCEPT ![p] = "released"]
  /\ maxForce' = IF inflight - 1 = 0 THEN limit ELSE maxForce
  /\ UNCHANGED <<loaded, rounds, mu, smu, limit, gauge, refusedAt>>

(* ... then the sample is folded and the window may close: the algorithm reports a new estimate *)
(* and the strategy's limit follows it, all under the limiter mutex                             *)
FoldUpdate(p) ==
  /\ pc[p] = "released"
  /\ UsesMu => mu = NoProc
  /\ StrategyLock => smu = NoProc   \* the precise strategy's SetLimit takes its mutex
  /\ \E v \in Limits \cup {limit} :
       /\ limit' = Max(1, v)
       /\ maxForce' = IF inflight = 0 THEN Max(1, v) ELSE Max(maxForce, Max(1, v))
  /\ pc' = [pc EXCEPT ![p] = "idle"] /\ rounds' = [rounds EXCEPT ![p] = @ + 1]
  /\ UNCHANGED <<loaded, mu, smu, inflight, gauge, refusedAt>>

Next == \E p \in P : AcqLock(p) \/ Check(p) \/ Add(p) \/ GaugeBack(p) \/ Release(p) \/ FoldUpdate(p)
Spec == Init /\ [][Next]_vars

NeverOver == inflight <= maxForce
GrantHadRoom == [][\A p \in P : (pc[p] = "checked" /\ pc'[p] = "held") => inflight < limit]_vars
RefusedAtLimit == refusedAt # <<>> => refusedAt[1] >= refusedAt[2]
NonNegative == inflight >= 0
(* C02: whenever no call is in the middle of taking or returning a unit, gauge and strategy count agree *)
GaugeExact == (\A p \in P : pc[p] \in {"idle", "held", "released"}) => gauge = inflight
=================================================================================
