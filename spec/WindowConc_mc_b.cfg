SPECIFICATION Spec
CONSTANTS
  P = {1, 2, 3}
  Dropped = {2}
  WSize = 10
  Pre = 10
  PreRtt = 5
  MinW = 1
  MaxW = 3
  MaxClock = 2
  Reread = TRUE
  Emit = TRUE
INVARIANT NoLoss
INVARIANT SeenOnce
INVARIANT OnlyReady
INVARIANT DropExact
CHECK_DEADLOCK FALSE
