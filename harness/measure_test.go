//go:build verif

package harness

import (
	"math"
	"path/filepath"
	"testing"

	"github.com/platinummonkey/go-concurrency-limits/core"
	"github.com/platinummonkey/go-concurrency-limits/measurements"
)

func fbits(f float64) ([]int, string) {
	if math.IsNaN(f) {
		return []int{0, 0, 0}, "nan"
	}
	if math.IsInf(f, 0) {
		return []int{0, 0, 0}, "inf"
	}
	if f < 0 || (f == 0 && math.Signbit(f)) {
		return chunks(int64(math.Float64bits(-f))), "negative"
	}
	return chunks(int64(math.Float64bits(f))), "ok"
}

func newMeasurement(kind string, p []float64) core.MeasurementInterface {
	switch kind {
	case "minimum":
		return &measurements.MinimumMeasurement{}
	case "single":
		return &measurements.SingleMeasurement{}
	case "expavg":
		return measurements.NewExponentialAverageMeasurement(int(p[0]), int(p[1]))
	case "ema":
		m, _ := measurements.NewSimpleExponentialMovingAverage(p[2])
		return m
	case "variance":
		m, _ := measurements.NewSimpleMovingVariance(p[2], p[3])
		return m
	default:
		m, _ := measurements.NewWindowlessMovingPercentile(p[4], p[5], p[2], p[3])
		return m
	}
}

// TestMeasureRandom records seeded Add / Reset sequences of every measurement primitive next to a
// twin that is replaced by a fresh instance at every Reset, and order-permuted sample-window folds.
func TestMeasureRandom(t *testing.T) {
	n := envInt("VERIF_N", 240)
	w := newNdWriter(t, filepath.Join(outDir(t), "measure_trace.ndjson"))
	defer w.close()
	kinds := []string{"minimum", "single", "expavg", "ema", "variance", "percentile"}
	for k := 0; k < n; k++ {
		r := newRng(seed(), uint64(k))
		kind := kinds[k%6]
		p := []float64{float64(r.between(2, 20)), float64(r.between(1, 6)), []float64{0.05, 0.2, 0.5, 1, 0.7, 0.8, 0.9, 0.99, 0.3, 0.01}[r.intn(10)], []float64{0.05, 0.25, 1}[r.intn(3)],
			[]float64{0.5, 0.9, 0.99}[r.intn(3)], []float64{0.001, 0.01, 0.5}[r.intn(3)]}
		m, twin := newMeasurement(kind, p), newMeasurement(kind, p)
		w.write(J{"ev": "Reset", "trace": k, "cfg": J{"kind": kind}})
		nops := r.between(10, 80)
		lastX := 1.0
		for i := 0; i < nops; i++ {
			if r.chance(1, 12) {
				m.Reset()
				twin = newMeasurement(kind, p)
				w.write(J{"ev": "ResetOp", "trace": k})
				continue
			}
			if r.chance(1, 9) {
				// Update: the operation sees a value and returns one; what it saw and returned is part of the record
				opk := r.intn(3)
				mkop := func(arg, out *float64) func(float64) float64 {
					return func(v float64) float64 {
						*arg = v
						switch {
						case v == 0:
							*out = 3
						case opk == 0:
							*out = v * 2
						case opk == 1:
							*out = v / 2
						default:
							*out = v + 3
						}
						return *out
					}
				}
				var arg, out, targ, tout float64
				before := m.Get()
				m.Update(mkop(&arg, &out))
				twin.Update(mkop(&targ, &tout))
				bb, bcls := fbits(before)
				ab, acls := fbits(arg)
				ob, ocls := fbits(out)
				vb, cls := fbits(m.Get())
				tb, tcls := fbits(twin.Get())
				w.write(J{"ev": "Update", "trace": k, "before": bb, "beforecls": bcls, "arg": ab, "argcls": acls, "out": ob, "outcls": ocls,
					"val": vb, "cls": cls, "twin": tb, "twincls": tcls})
				continue
			}
			var x float64
			switch r.intn(6) {
			case 4:
				x = lastX // a constant stream: the stored value still moves by an ulp or two
			case 5:
				x = lastX * (1 + float64(r.between(1, 9))*1e-13) // sub-nanosecond jitter
			case 0:
				x = float64(r.between(1, 10))
			case 1:
				x = float64(r.between(1, 1000000)) / 8
			case 2:
				x = float64(int64(1) << uint(r.between(0, 60)))
			default:
				x = float64(r.between(1, 1000)) * 1e6
			}
			if r.chance(1, 5) {
				x /= 1e9 // seconds instead of nanoseconds
			}
			lastX = x
			before := m.Get()
			val, flag := m.Add(x)
			after := m.Get()
			tv, _ := twin.Add(x)
			if kind == "variance" {
				val, tv = after, twin.Get() // Add returns the standard deviation; the stored value is the variance
			}
			xb, _ := fbits(x)
			vb, cls := fbits(val)
			if cls == "ok" && kind != "variance" && val != after {
				cls = "add-returned-other-than-get"
			}
			tb, tcls := fbits(tv)
			// the hull of the samples is respected up to floating-point noise: 4 units in the last place either way
			dn, up := vb, vb
			if cls == "ok" {
				bits := int64(math.Float64bits(val))
				d := bits - 4
				if d < 0 {
					d = 0
				}
				dn, up = chunks(d), chunks(bits+4)
			}
			w.write(J{"ev": "Add", "trace": k, "x": xb, "val": vb, "valdn": dn, "valup": up, "cls": cls, "flag": flag, "changed": before != after, "twin": tb, "twincls": tcls})
		}
		// sample window: the same samples in two orders
		ns := r.between(1, 9)
		type smp struct {
			rtt, inflight int
			drop          bool
		}
		var xs []smp
		for i := 0; i < ns; i++ {
			xs = append(xs, smp{r.between(0, 500), r.between(0, 40), r.chance(1, 5)})
		}
		perm := append([]smp{}, xs...)
		for i := len(perm) - 1; i > 0; i-- {
			j := r.intn(i + 1)
			perm[i], perm[j] = perm[j], perm[i]
		}
		fold := func(ys []smp) J {
			sw := measurements.NewDefaultImmutableSampleWindow()
			first := sw
			defer func() {
				if len(heldWindows) < 6 && len(ys) > 0 {
					heldWindows = append(heldWindows, heldWindow{k, sw, windowSummary(sw)})
				}
			}()
			for _, y := range ys {
				if y.drop {
					sw = sw.AddDroppedSample(-1, y.inflight)
				} else {
					sw = sw.AddSample(-1, int64(y.rtt), y.inflight)
				}
			}
			mn := int(sw.CandidateRTTNanoseconds())
			if sw.CandidateRTTNanoseconds() == math.MaxInt64 {
				mn = -1
			}
			sum := int(sw.AverageRTTNanoseconds()) // mean; the sum is recovered below
			_ = sum
			total := 0
			for _, y := range ys {
				if !y.drop {
					total += y.rtt
				}
			}
			got := J{"min": mn, "count": sw.SampleCount(), "maxin": sw.MaxInFlight(), "drop": sw.DidDrop(), "sum": total}
			if sw.SampleCount() > 0 && int(sw.AverageRTTNanoseconds()) != total/sw.SampleCount() {
				got["sum"] = -1 // the mean does not correspond to the samples added
			}
			if first.SampleCount() != 0 || first.DidDrop() {
				got["sum"] = -2 // the receiver was mutated
			}
			return got
		}
		var samples []J
		for _, y := range xs {
			samples = append(samples, J{"rtt": y.rtt, "inflight": y.inflight, "drop": y.drop})
		}
		w.write(J{"ev": "Window", "trace": k, "samples": samples, "a": fold(xs), "b": fold(perm)})
	}
	// windows are values: the ones kept from the first sequences still say what they said, after everything that was added
	// to other windows since (and a few thousand samples more on a chain of its own)
	churn := measurements.NewDefaultImmutableSampleWindow()
	for i := 0; i < 5000; i++ {
		if i%7 == 0 {
			churn = churn.AddDroppedSample(-1, 90+i%9)
		} else {
			churn = churn.AddSample(-1, int64(5+i%11), 90+i%9)
		}
	}
	for _, h := range heldWindows {
		w.write(J{"ev": "WindowHeld", "trace": h.trace, "before": h.was, "after": windowSummary(h.w)})
	}
	heldWindows = nil
}

type heldWindow struct {
	trace int
	w     *measurements.ImmutableSampleWindow
	was   J
}

var heldWindows []heldWindow

func windowSummary(sw *measurements.ImmutableSampleWindow) J {
	mn := int(sw.CandidateRTTNanoseconds())
	if sw.CandidateRTTNanoseconds() == math.MaxInt64 {
		mn = -1
	}
	return J{"min": mn, "avg": int(sw.AverageRTTNanoseconds()), "count": sw.SampleCount(), "maxin": sw.MaxInFlight(), "drop": sw.DidDrop()}
}
