//go:build verif

package harness

import (
	"bytes"
	"context"
	"fmt"
	"runtime"
	"strconv"
	"sync"

	"github.com/platinummonkey/go-concurrency-limits/core"
)

// ---------------------------------------------------------------------------------------------
// Gates: a gate is a call-back placed at a step boundary of an implementation-shaped TLA+ model.
// A goroutine reaching an enabled gate registers itself with the controller and blocks on a
// channel until the controller passes it. Inside a synctest bubble a goroutine blocked at a gate
// is durably blocked, so synctest.Wait() returns exactly when every goroutine is parked at a gate,
// blocked inside the library, or finished.
// ---------------------------------------------------------------------------------------------

type parkedGate struct {
	Proc    string
	Point   string
	Payload J
	release chan struct{}
}

type controller struct {
	mu      sync.Mutex
	parked  map[string]*parkedGate // key: proc, or proc+"/child"
	goids   map[int64]string
	enabled map[string]bool
	curProc string // process whose step is being executed (owner of goroutines the library spawns)
	arrived []string
	emit    func(J)    // event sink of the running scenario
	lin     sync.Mutex // makes "delegate call + its event" one atomic unit, so that events are logged in linearisation order
}

func (c *controller) event(e J) {
	if c.emit != nil {
		c.emit(e)
	}
}

func (c *controller) whoami() string {
	c.mu.Lock()
	defer c.mu.Unlock()
	if p, ok := c.goids[goid()]; ok {
		return p
	}
	return c.curProc + "/child"
}

func newController(enabled ...string) *controller {
	c := &controller{parked: map[string]*parkedGate{}, goids: map[int64]string{}, enabled: map[string]bool{}}
	for _, e := range enabled {
		c.enabled[e] = true
	}
	return c
}

func goid() int64 {
	var buf [64]byte
	n := runtime.Stack(buf[:], false)
	// "goroutine 123 [running]:"
	b := buf[:n]
	b = b[len("goroutine "):]
	i := bytes.IndexByte(b, ' ')
	id, _ := strconv.ParseInt(string(b[:i]), 10, 64)
	return id
}

func (c *controller) register(proc string) {
	c.mu.Lock()
	c.goids[goid()] = proc
	c.mu.Unlock()
}

func (c *controller) unregister() {
	c.mu.Lock()
	delete(c.goids, goid())
	c.mu.Unlock()
}

// gate parks the calling goroutine at point (if enabled) until the controller passes it.
func (c *controller) gate(point string, payload J) {
	c.mu.Lock()
	if !c.enabled[point] {
		c.mu.Unlock()
		return
	}
	proc, known := c.goids[goid()]
	key := proc
	if !known {
		// a goroutine spawned by the library during the current step (blockUntilSignaled's helper)
		proc = c.curProc
		key = proc + "/child"
		for i := 2; c.parked[key] != nil; i++ {
			key = fmt.Sprintf("%s/child%d", proc, i)
		}
	}
	g := &parkedGate{Proc: proc, Point: point, Payload: payload, release: make(chan struct{})}
	if old := c.parked[key]; old != nil {
		panic(fmt.Sprintf("process %s parked twice (%s, %s)", key, old.Point, point))
	}
	c.parked[key] = g
	c.arrived = append(c.arrived, key)
	c.mu.Unlock()
	<-g.release
}

// pass releases the goroutine parked under key; false if nothing is parked there or at another point.
func (c *controller) pass(key, point string) bool {
	c.mu.Lock()
	g := c.parked[key]
	if g == nil || (point != "" && g.Point != point) {
		c.mu.Unlock()
		return false
	}
	delete(c.parked, key)
	c.curProc = g.Proc
	c.mu.Unlock()
	close(g.release)
	return true
}

func (c *controller) parkedMap() map[string]string {
	c.mu.Lock()
	defer c.mu.Unlock()
	m := map[string]string{}
	for k, g := range c.parked {
		m[k] = g.Point
	}
	return m
}

func (c *controller) payload(key string) J {
	c.mu.Lock()
	defer c.mu.Unlock()
	if g := c.parked[key]; g != nil {
		return g.Payload
	}
	return nil
}

func (c *controller) payloadProc(key string) string {
	c.mu.Lock()
	defer c.mu.Unlock()
	if g := c.parked[key]; g != nil {
		return g.Proc
	}
	return ""
}

func (c *controller) disableAll() {
	c.mu.Lock()
	c.enabled = map[string]bool{}
	c.mu.Unlock()
}

func (c *controller) passAll() int {
	n := 0
	for {
		c.mu.Lock()
		var key string
		for k := range c.parked {
			key = k
			break
		}
		c.mu.Unlock()
		if key == "" {
			return n
		}
		c.pass(key, "")
		n++
	}
}

// ---------------------------------------------------------------------------------------------
// Doubles injected at the library's interfaces
// ---------------------------------------------------------------------------------------------

type procKeyT struct{}

var procKey = procKeyT{}

func procOf(ctx context.Context) string {
	if v, ok := ctx.Value(procKey).(string); ok {
		return v
	}
	return ""
}

// GatedLimiter wraps the real delegate limiter: gates at Acquire entry and exit.
type GatedLimiter struct {
	c     *controller
	inner core.Limiter
}

func (g *GatedLimiter) Acquire(ctx context.Context) (core.Listener, bool) {
	who := procOf(ctx)
	g.c.event(J{"k": "want", "by": g.c.whoami(), "for": who})
	g.c.gate("acq.enter", J{"for": who})
	g.c.lin.Lock()
	l, ok := g.inner.Acquire(ctx)
	granted := ok && l != nil
	g.c.event(J{"k": "att", "by": g.c.whoami(), "for": who, "ok": granted, "nil": l == nil})
	g.c.lin.Unlock()
	g.c.gate("acq.exit", J{"for": who, "ok": granted})
	if !granted {
		return l, ok
	}
	return &GatedListener{c: g.c, inner: l, For: who}, true
}

func (g *GatedLimiter) String() string { return "GatedLimiter" }

// GatedListener wraps the real listener of the delegate: a gate after the real completion, i.e.
// exactly between "capacity released" and the wrapper's Broadcast / unblock.
type GatedListener struct {
	c     *controller
	inner core.Listener
	For   string
	done  int
}

func (g *GatedListener) complete(f func(), o string) {
	// before the real completion (enabled only by the release-order scenarios): whatever the wrapper does ahead of giving
	// the token back happens while the completion is parked here
	g.c.gate("rel.enter", J{"for": g.For, "outcome": o})
	g.c.lin.Lock()
	g.done++
	f()
	g.c.event(J{"k": "rel", "by": g.c.whoami(), "for": g.For, "o": o, "n": g.done})
	g.c.lin.Unlock()
	g.c.gate("rel.exit", J{"for": g.For, "outcome": o, "completions": g.done})
}
func (g *GatedListener) OnSuccess() { g.complete(g.inner.OnSuccess, "success") }
func (g *GatedListener) OnIgnore()  { g.complete(g.inner.OnIgnore, "ignore") }
func (g *GatedListener) OnDropped() { g.complete(g.inner.OnDropped, "dropped") }

// gatedCtx is a context whose Done() is a gate (the queue limiter calls Done() between the
// backlog push and its select when BacklogEvictDoneCtx is enabled).
type gatedCtx struct {
	context.Context
	c *controller
}

func (g *gatedCtx) Done() <-chan struct{} {
	g.c.gate("ctx.done", J{"for": procOf(g.Context)})
	return g.Context.Done()
}
