-------------------------------- MODULE WindowedTrace --------------------------------
(* Contract of limit/windowed.go (WindowedLimit), the windowed half of C09, as a deterministic  *)
(* trace acceptor.  The harness feeds OnSample(start, rtt, inflight, drop) calls to a real      *)
(* WindowedLimit whose delegate records what it receives.  Times: start = T * period (period =  *)
(* min = max window time) and RTTs are far smaller than the period, so an instant is the pair   *)
(* <<T, r>> compared lexicographically and the next update time is <<T + 1, r>>.                *)
(*   - a sample (any outcome) with rtt < threshold leaves no trace                              *)
(*   - otherwise it is folded: successes into sum/count/min, every sample into max in-flight,   *)
(*     a drop sets the window's drop flag                                                       *)
(*   - the window closes when its end passes the next update time and the readiness rule holds  *)
(*     (as implemented and pinned by the repository's windowed_test.go: in-flight of the        *)
(*     closing sample > window size); the delegate then receives exactly once                   *)
(*     (start, mean RTT over the successes (0 if none), max in-flight, drop flag of the WINDOW) *)
EXTENDS Windowed, TLC, Json, IOUtils

Log == ndJsonDeserialize(IOEnv.VERIF_TRACE)
VARIABLES l, ok, cfg, w
vars == <<l, ok, cfg, w>>

Init == l = 1 /\ ok = FALSE /\ cfg = [wsize |-> 0, general |-> FALSE] /\ w = Empty
Step ==
  /\ l <= Len(Log) /\ l' = l + 1
  /\ LET e == Log[l] IN
     IF e.ev = "Reset" THEN cfg' = e.cfg /\ w' = (IF e.cfg.general THEN Empty2 ELSE Empty) /\ ok' = TRUE
     ELSE IF ~ok THEN UNCHANGED <<ok, cfg, w>>
     ELSE LET r == IF "traced" \in DOMAIN cfg THEN FoldTraced(cfg, w, e.in) ELSE IF cfg.general THEN Fold2(cfg, w, e.in) ELSE Fold(cfg, w, e.in) IN
          IF r.out = e.out /\ e.est = e.dest
          THEN w' = r.st /\ UNCHANGED <<ok, cfg>>
          ELSE /\ ok' = FALSE /\ UNCHANGED <<cfg, w>>
               /\ PrintT(<<"REJECT", ToJson([trace |-> e.trace, line |-> l, why |-> IF e.est # e.dest THEN "wrapper reports another estimate than its delegate"
                                                                                    ELSE "samples forwarded to the delegate differ from the window fold",
                                             expected |-> r.out, logged |-> e.out, op |-> e.in])>>)
Done == l > Len(Log) /\ UNCHANGED vars
Next == Step \/ Done
Consumed == (l > Len(Log)) => PrintT(<<"CONSUMED", l - 1>>)
=================================================================================
