--------------------------------- MODULE VegasModel ---------------------------------
(* Exact integer model of limit/vegas.go in the sub-domain where Go's float64 arithmetic is    *)
(* exact (smoothing 1, default alpha/beta/threshold/increase/decrease functions built on the   *)
(* log10-root table, RTTs that are powers of two times a unit so that est*(1 - noload/rtt) is  *)
(* exact; measured in the design phase: 400 000 / 400 000 steps agree with the real            *)
(* VegasLimit).  Design-level check of C04 / C06 / C07 / C08 / C15 for Vegas over every        *)
(* reachable (estimate, baseline) pair of the bounded domain; every transition is printed so    *)
(* that the harness can drive the real VegasLimit through the graph (probing is taken out of    *)
(* the random jitter's hands through the verif accessor: Probe is an explicit step).            *)
EXTENDS Integers, Sequences, TLC, Json

CONSTANTS MaxLimit, Initial, Rtts, Emit

VARIABLES est, noload   \* noload = 0: unset
vars == <<est, noload>>

Max(a, b) == IF a > b THEN a ELSE b
Min(a, b) == IF a < b THEN a ELSE b
CeilDiv(a, b) == (a + b - 1) \div b

(* functions.Log10RootFunction(0): max(1, floor(log10 n)) *)
L10(n) == IF n < 100 THEN 1 ELSE IF n < 1000 THEN 2 ELSE 3
Alpha(n) == 3 * L10(n)
Beta(n) == 6 * L10(n)
Threshold(n) == L10(n)
Clamp(x) == Max(1, Min(MaxLimit, x))

(* updateEstimatedLimit for a sample that is neither a probe nor a new minimum (rtt >= noload > 0) *)
Update(e, nl, rtt, inflight, drop) ==
  LET queue == CeilDiv(e * (rtt - nl), rtt) IN
  IF drop THEN Clamp(e - L10(e))
  ELSE IF 2 * inflight < e THEN e
  ELSE IF queue < Threshold(e) THEN Clamp(e + Beta(e))
  ELSE IF queue < Alpha(e) THEN Clamp(e + L10(e))
  ELSE IF queue > Beta(e) THEN Clamp(e - L10(e))
  ELSE e

(* OnSample without the probe decision *)
StepEst(e, nl, rtt, inflight, drop) == IF nl = 0 \/ rtt < nl THEN e ELSE Update(e, nl, rtt, inflight, drop)
StepNl(e, nl, rtt) == IF nl = 0 \/ rtt < nl THEN rtt ELSE nl

InflightOf(cls, e) == CASE cls = "zero" -> 0 [] cls = "low" -> Max(0, CeilDiv(e, 2) - 1) [] cls = "half" -> CeilDiv(e, 2) [] OTHER -> e

Init == /\ est = Initial
        /\ noload = 0
        /\ Emit => /\ PrintT(<<"C", ToJson([max |-> MaxLimit, initial |-> Initial])>>)
                   /\ PrintT(<<"I", ToJson([est |-> Initial, noload |-> 0])>>)

Sample(rtt, cls, drop) ==
  /\ est' = StepEst(est, noload, rtt, InflightOf(cls, est), drop)
  /\ noload' = StepNl(est, noload, rtt)
  /\ Emit => PrintT(<<"T", ToJson([from |-> [est |-> est, noload |-> noload],
                                   op |-> [op |-> "sample", rtt |-> rtt, inflight |-> InflightOf(cls, est), drop |-> drop],
                                   res |-> [ok |-> TRUE], to |-> [est |-> est', noload |-> noload']])>>)

Probe(rtt) ==   \* the probe replaces the baseline by this sample's RTT and leaves the estimate alone
  /\ est' = est /\ noload' = rtt
  /\ Emit => PrintT(<<"T", ToJson([from |-> [est |-> est, noload |-> noload], op |-> [op |-> "probe", rtt |-> rtt, inflight |-> est, drop |-> FALSE],
                                   res |-> [ok |-> TRUE], to |-> [est |-> est', noload |-> noload']])>>)

Next == \/ \E rtt \in Rtts, cls \in {"zero", "low", "half", "full"}, drop \in BOOLEAN : Sample(rtt, cls, drop)
        \/ \E rtt \in Rtts : Probe(rtt)

(* ---- the properties, quantified over the whole input domain in every reachable state ------- *)
Inflights == {0, Max(0, CeilDiv(est, 2) - 1), CeilDiv(est, 2), est, est + 5}
Bounds == 1 <= est /\ est <= Max(MaxLimit, Initial)                                           \* C04
DropNeverRaises == \A r \in Rtts, i \in Inflights : StepEst(est, noload, r, i, TRUE) <= est   \* C06
AppLimitedNeverRaises ==                                                                       \* C07
  \A r \in Rtts, i \in Inflights : 2 * i < est => StepEst(est, noload, r, i, FALSE) <= est
Monotone ==                                                                                    \* C08
  \A r1, r2 \in Rtts, i \in Inflights, d \in BOOLEAN :
     (noload > 0 /\ noload <= r1 /\ r1 < r2) => StepEst(est, noload, r2, i, d) <= StepEst(est, noload, r1, i, d)
BaselineIsMin == \A r \in Rtts : LET n == StepNl(est, noload, r) IN n <= r                     \* C15
(* C07, recovery: from every reachable state a healthy saturated run (rtt = baseline) reaches the ceiling *)
RECURSIVE Grow(_, _)
Grow(e, n) == IF n = 0 \/ e >= MaxLimit THEN e ELSE Grow(Clamp(e + Beta(e)), n - 1)
HealthyRunRecovers == Grow(est, CeilDiv(MaxLimit, 6) + 1) >= MaxLimit
(* C06, drop run reaches the floor *)
RECURSIVE Shrink(_, _)
Shrink(e, n) == IF n = 0 \/ e <= 1 THEN e ELSE Shrink(Clamp(e - L10(e)), n - 1)
DropRunReachesFloor == Shrink(est, est) = 1
=================================================================================
