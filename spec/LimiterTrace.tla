------------------------------- MODULE LimiterTrace -------------------------------
(* Trace validation (code -> model) for spec/Limiter.tla: recorded sequential histories of     *)
(* real DefaultLimiters (any strategy kind, scripted limit, virtual clock).  Same scheme as    *)
(* PartitionTrace: a line is accepted iff ApplyL gives exactly the logged result (including    *)
(* the samples handed to the limit algorithm and the in-flight metric) and projection, and the *)
(* contract invariants hold in the new state.                                                  *)
EXTENDS Limiter, TLC, Json, IOUtils

Log == ndJsonDeserialize(IOEnv.VERIF_TRACE)

VARIABLES l, ok, cfg, s
vars == <<l, ok, cfg, s>>

Init == l = 1 /\ ok = FALSE /\ cfg = [strat |-> "none"] /\ s = [gauge |-> 0]

Reject(e, why, exp) ==
  PrintT(<<"REJECT", ToJson([trace |-> e.trace, line |-> l, why |-> why, expected |-> exp,
                             logged |-> [res |-> e.res, post |-> e.post], op |-> e.op])>>)

Step ==
  /\ l <= Len(Log)
  /\ l' = l + 1
  /\ LET e == Log[l] IN
     IF e.ev = "Reset"
     THEN LET s0 == InitL(e.cfg) IN
          /\ cfg' = e.cfg /\ s' = s0
          /\ IF ObsL(e.cfg, s0) = e.post THEN ok' = TRUE
             ELSE /\ ok' = FALSE
                  /\ PrintT(<<"REJECT", ToJson([trace |-> e.trace, line |-> l, why |-> "construction",
                                                expected |-> ObsL(e.cfg, s0), logged |-> e.post, op |-> [op |-> "new"]])>>)
     ELSE IF e.ev = "Quiet"
     THEN \* C05 under concurrency: once every update has completed, enforcement equals the estimate floored at 1
          /\ UNCHANGED <<ok, cfg, s>>
          /\ e.post.limit # Max(1, e.post.est) =>
                PrintT(<<"REJECT", ToJson([trace |-> e.trace, line |-> l, why |-> "all updates completed and the strategy enforces another limit than the algorithm's estimate",
                                           expected |-> [limit |-> Max(1, e.post.est)], logged |-> e.post, op |-> [op |-> "quiet"]])>>)
     ELSE IF ~ok THEN UNCHANGED <<ok, cfg, s>>
     ELSE IF ~EnabledL(cfg, s, e.op)
          THEN /\ Reject(e, "operation not enabled in the contract state", ObsL(cfg, s))
               /\ ok' = FALSE /\ UNCHANGED <<cfg, s>>
     ELSE LET r == ApplyL(cfg, s, e.op) IN
          IF /\ r.res = e.res /\ ObsL(cfg, r.st) = e.post
             /\ InvConserve(cfg, r.st) /\ InvEnforce(cfg, r.st) /\ InvWindow(cfg, r.st)
          THEN s' = r.st /\ UNCHANGED <<ok, cfg>>
          ELSE /\ Reject(e, "result, samples or post-state differ from the contract", [res |-> r.res, post |-> ObsL(cfg, r.st)])
               /\ ok' = FALSE /\ UNCHANGED <<cfg, s>>

Done == l > Len(Log) /\ UNCHANGED vars
Next == Step \/ Done
Consumed == (l > Len(Log)) => PrintT(<<"CONSUMED", l - 1>>)
=================================================================================
