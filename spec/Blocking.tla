--------------------------------- MODULE Blocking ---------------------------------
(* Implementation-shaped model (I) of limiter/blocking.go, limiter/deadline.go and          *)
(* limiter/delegate_listener.go, with the contract invariants of C10 / C13 / C02 / C19       *)
(* stated over it.  One action per gate-to-gate segment of the Go code:                      *)
(*                                                                                           *)
(*   tryAcquire loop:  ctx.Err check, (deadline check)      -> parks at gate acq.enter       *)
(*                     delegate.Acquire (real attempt)      -> parks at gate acq.exit        *)
(*                     granted: return | failed: blockUntilSignaled spawns the helper that   *)
(*                     locks the cond and Waits; the caller selects on ctx / ready / timer   *)
(*                     (a timer only if timeout > 0)                                         *)
(*                     signalled: one more attempt, then back to the top of the loop         *)
(*   completion:       delegate listener (real release)     -> parks at gate rel.exit        *)
(*                     cond.Broadcast() (without the cond's mutex)                           *)
(*                                                                                           *)
(* The gates are the doubles GatedLimiter / GatedListener of the harness (and the verif hook *)
(* block.childStart in Fine mode), so every behaviour of this module is a schedule that the  *)
(* harness can force on the real code inside a synctest bubble.  Arrivals, completions by    *)
(* the application, cancellations and Tick are environment actions; everything else is a     *)
(* zero-time library step.  Tick advances the virtual clock by one and fires every timer     *)
(* that becomes due (urgent timers, exactly like the bubble).                                *)
EXTENDS Integers, Sequences, FiniteSets, TLC, Json

CONSTANTS
  P,            \* processes (strings); each runs Acquire once and, if granted, completes once
  Kind,         \* "blocking" | "deadline"
  Limit,        \* limit of the delegate
  Poll,         \* blocking limiter's timeout in ticks (0 = none)
  Deadline,     \* deadline limiter's deadline (tick); ignored for "blocking"
  MaxTime,      \* bound on the virtual clock
  Fine,         \* TRUE: the helper goroutine's start is its own step (hook block.childStart)
  Cancellable,  \* processes whose context may be cancelled
  Outcomes,     \* completion outcomes used: subset of {"success","ignore","dropped"}
  Recheck,      \* TRUE: repaired wait protocol - after a failed attempt the caller first registers its
                \* helper on the condition (and waits until it is registered), attempts once more and only
                \* then sleeps; the completion broadcasts under the condition's mutex.  FALSE: as delivered
                \* (helper spawned after the failed attempt, Broadcast without the mutex)
  TimeoutGuard, \* TRUE: deadline limiter refuses when the remaining time is <= 0 (repaired code);
                \* FALSE: as delivered - blockUntilSignaled then waits without any timer
  Emit          \* print the transition graph for the harness

NoTimer == -1
ASSUME Fine => Cancellable = {}

VARIABLES
  pc,         \* idle | acqEnter | acqExit | arming | select | held | relExit | done
  got,        \* result of the attempt p is parked behind (at acqExit)
  second,     \* kind of the current attempt: "first" | "recheck" (after registering) | "signalled"
  rdy,        \* the helper's ready channel was closed while p was not yet selecting
  res,        \* none | granted | refused
  kid,        \* p's helper goroutine: none | starting | waiting
  timer,      \* instant p's select timer fires, or NoTimer
  cancelled,
  held,       \* tokens out at the delegate
  now,
  lw          \* history (known-finding class P2): a Broadcast happened while p was between its
              \* failed first attempt and its helper's cond.Wait
vars == <<pc, got, second, rdy, res, kid, timer, cancelled, held, now, lw>>

St == [pc |-> pc, got |-> got, second |-> second, rdy |-> rdy, res |-> res, kid |-> kid, timer |-> timer,
       cancelled |-> cancelled, held |-> held, now |-> now, lw |-> lw]

Status(p) ==
  CASE pc[p] = "idle" -> "idle"
    [] pc[p] = "acqEnter" -> "gate:acq.enter"
    [] pc[p] = "acqExit" -> "gate:acq.exit"
    [] pc[p] \in {"select", "arming"} -> "blocked"
    [] pc[p] = "held" -> "granted"
    [] pc[p] = "relExit" -> "gate:rel.exit"
    [] pc[p] = "done" /\ res[p] = "refused" -> "refused"
    [] OTHER -> "released"

(* what the harness reads back after every step *)
Obs == [t |-> now, busy |-> held, gauge |-> held, procs |-> [p \in P |-> Status(p)],
        kids |-> [p \in P |-> kid[p] = "starting"]]

Init ==
  /\ pc = [p \in P |-> "idle"] /\ got = [p \in P |-> FALSE] /\ second = [p \in P |-> "first"] /\ rdy = [p \in P |-> FALSE]
  /\ res = [p \in P |-> "none"] /\ kid = [p \in P |-> "none"] /\ timer = [p \in P |-> NoTimer]
  /\ cancelled = [p \in P |-> FALSE] /\ held = 0 /\ now = 0 /\ lw = [p \in P |-> FALSE]

(* top of the tryAcquire loop: where p goes given its cancellation flag c at time t *)
TopRefuses(c, t) == c \/ (Kind = "deadline" /\ t > Deadline)

Remaining == Deadline - now

(* ------------------------------------------------------------------ library steps *)
Start(p) ==
  /\ pc[p] = "idle"
  /\ IF TopRefuses(cancelled[p], now)
     THEN pc' = [pc EXCEPT ![p] = "done"] /\ res' = [res EXCEPT ![p] = "refused"]
     ELSE pc' = [pc EXCEPT ![p] = "acqEnter"] /\ UNCHANGED res
  /\ second' = [second EXCEPT ![p] = "first"]
  /\ UNCHANGED <<got, rdy, kid, timer, cancelled, held, now, lw>>

PassAcqEnter(p) ==
  /\ pc[p] = "acqEnter"
  /\ pc' = [pc EXCEPT ![p] = "acqExit"]
  /\ IF held < Limit
     THEN held' = held + 1 /\ got' = [got EXCEPT ![p] = TRUE]
     ELSE UNCHANGED held /\ got' = [got EXCEPT ![p] = FALSE]
  /\ lw' = [lw EXCEPT ![p] = FALSE]
  /\ UNCHANGED <<second, rdy, res, kid, timer, cancelled, now>>

(* the caller goes to sleep in blockUntilSignaled / waitSignal; mayReady: the ready channel *)
(* may already be closed (repaired protocol only)                                           *)
Sleep(p, spawn) ==
  LET to == IF Kind = "deadline" THEN Remaining ELSE Poll IN
  /\ pc' = [pc EXCEPT ![p] = "select"]
  /\ kid' = IF spawn THEN [kid EXCEPT ![p] = IF Fine THEN "starting" ELSE "waiting"] ELSE kid
  /\ timer' = [timer EXCEPT ![p] = IF to > 0 THEN now + to ELSE NoTimer]
  /\ UNCHANGED <<second, res, rdy>>

Refuse(p) ==
  /\ pc' = [pc EXCEPT ![p] = "done"] /\ res' = [res EXCEPT ![p] = "refused"]
  /\ kid' = [kid EXCEPT ![p] = "none"] /\ rdy' = [rdy EXCEPT ![p] = FALSE]
  /\ UNCHANGED <<second, timer>>

Retry(p, kind) ==   \* next attempt of the given kind
  /\ pc' = [pc EXCEPT ![p] = "acqEnter"] /\ second' = [second EXCEPT ![p] = kind]
  /\ UNCHANGED <<res, timer>>

PassAcqExit(p) ==
  /\ pc[p] = "acqExit"
  /\ IF got[p]
     THEN /\ pc' = [pc EXCEPT ![p] = "held"] /\ res' = [res EXCEPT ![p] = "granted"]
          /\ kid' = [kid EXCEPT ![p] = "none"] /\ rdy' = [rdy EXCEPT ![p] = FALSE]
          /\ UNCHANGED <<second, timer>>
     ELSE IF second[p] = "signalled"
     THEN \* failed after a signal: back to the top of the loop
          IF TopRefuses(cancelled[p], now) THEN Refuse(p)
          ELSE Retry(p, "first") /\ UNCHANGED <<kid, rdy>>
     ELSE IF second[p] = "first" /\ Recheck
     THEN \* register the helper, wait until it is registered, then attempt once more
          IF Fine
          THEN /\ pc' = [pc EXCEPT ![p] = "arming"] /\ kid' = [kid EXCEPT ![p] = "starting"]
               /\ UNCHANGED <<second, res, timer, rdy>>
          ELSE /\ Retry(p, "recheck") /\ kid' = [kid EXCEPT ![p] = "waiting"] /\ UNCHANGED rdy
     ELSE \* "first" as delivered, or "recheck": go to sleep
          IF Kind = "deadline" /\ TimeoutGuard /\ Remaining <= 0 THEN Refuse(p)
          ELSE IF rdy[p] /\ cancelled[p]
          THEN \* select with both ready and ctx.Done available: either may be taken
               \/ Refuse(p)
               \/ (Retry(p, "signalled") /\ rdy' = [rdy EXCEPT ![p] = FALSE] /\ UNCHANGED kid)
          ELSE IF rdy[p] THEN Retry(p, "signalled") /\ rdy' = [rdy EXCEPT ![p] = FALSE] /\ UNCHANGED kid
          ELSE IF cancelled[p] THEN Refuse(p)
          ELSE Sleep(p, ~Recheck)
  /\ UNCHANGED <<got, cancelled, held, now, lw>>

ChildPass(p) ==
  /\ kid[p] = "starting"
  /\ kid' = [kid EXCEPT ![p] = "waiting"]
  /\ IF pc[p] = "arming"
     THEN pc' = [pc EXCEPT ![p] = "acqEnter"] /\ second' = [second EXCEPT ![p] = "recheck"]
     ELSE UNCHANGED <<pc, second>>
  /\ UNCHANGED <<got, rdy, res, timer, cancelled, held, now, lw>>

(* application completes its token: the delegate's listener runs (capacity is free again)    *)
(* and the call parks before the Broadcast                                                   *)
Release(p, o) ==
  /\ pc[p] = "held"
  /\ pc' = [pc EXCEPT ![p] = "relExit"]
  /\ held' = held - 1
  /\ UNCHANGED <<got, second, rdy, res, kid, timer, cancelled, now, lw>>

Signalled(q) == kid[q] = "waiting"
Woken(p, q) == q # p /\ Signalled(q) /\ pc[q] = "select"

PassRelExit(p) ==
  /\ pc[p] = "relExit"
  /\ pc' = [q \in P |-> IF q = p THEN "done" ELSE IF Woken(p, q) THEN "acqEnter" ELSE pc[q]]
  /\ second' = [q \in P |-> IF Woken(p, q) THEN "signalled" ELSE second[q]]
  /\ timer' = [q \in P |-> IF Woken(p, q) THEN NoTimer ELSE timer[q]]
  /\ kid' = [q \in P |-> IF Signalled(q) THEN "none" ELSE kid[q]]
  /\ rdy' = [q \in P |-> IF q # p /\ Signalled(q) /\ pc[q] \in {"acqEnter", "acqExit"} /\ second[q] = "recheck"
                         THEN TRUE ELSE rdy[q]]
  /\ lw' = [q \in P |-> IF ~Recheck /\ (\/ (pc[q] = "acqExit" /\ ~got[q] /\ second[q] = "first")
                                        \/ (pc[q] = "select" /\ kid[q] = "starting"))
                        THEN TRUE ELSE lw[q]]
  /\ UNCHANGED <<got, res, cancelled, held, now>>

(* ------------------------------------------------------------------ environment steps *)
Cancel(p) ==
  /\ p \in Cancellable /\ ~cancelled[p] /\ pc[p] \in {"idle", "acqEnter", "acqExit", "select"}
  /\ ~(pc[p] = "select" /\ kid[p] = "starting")
  /\ cancelled' = [cancelled EXCEPT ![p] = TRUE]
  /\ IF pc[p] = "select"
     THEN /\ pc' = [pc EXCEPT ![p] = "done"] /\ res' = [res EXCEPT ![p] = "refused"]
          /\ kid' = [kid EXCEPT ![p] = "none"] /\ timer' = [timer EXCEPT ![p] = NoTimer]
     ELSE UNCHANGED <<pc, res, kid, timer>>
  /\ UNCHANGED <<got, second, rdy, held, now, lw>>

Due(q, t) == pc[q] = "select" /\ timer[q] # NoTimer /\ timer[q] <= t

Tick ==
  /\ now < MaxTime
  /\ \A q \in P : ~(Due(q, now + 1) /\ kid[q] = "starting")
  /\ now' = now + 1
  /\ pc' = [q \in P |-> IF Due(q, now + 1)
                        THEN (IF TopRefuses(cancelled[q], now + 1) THEN "done" ELSE "acqEnter")
                        ELSE pc[q]]
  /\ res' = [q \in P |-> IF Due(q, now + 1) /\ TopRefuses(cancelled[q], now + 1) THEN "refused" ELSE res[q]]
  /\ second' = [q \in P |-> IF Due(q, now + 1) THEN "first" ELSE second[q]]
  /\ timer' = [q \in P |-> IF Due(q, now + 1) THEN NoTimer ELSE timer[q]]
  /\ kid' = [q \in P |-> IF Due(q, now + 1) THEN "none" ELSE kid[q]]
  /\ UNCHANGED <<got, rdy, cancelled, held, lw>>

Step(lbl) == Emit => PrintT(<<"T", ToJson([from |-> St, step |-> lbl, to |-> St', obs |-> Obs'])>>)

Next ==
  \/ \E p \in P : Start(p) /\ Step([a |-> "start", p |-> p, call |-> "acquire"])
  \/ \E p \in P : PassAcqEnter(p) /\ Step([a |-> "pass", p |-> p, gate |-> "acq.enter"])
  \/ \E p \in P : PassAcqExit(p) /\ Step([a |-> "pass", p |-> p, gate |-> "acq.exit"])
  \/ \E p \in P : ChildPass(p) /\ Step([a |-> "passchild", p |-> p])
  \/ \E p \in P, o \in Outcomes : Release(p, o) /\ Step([a |-> "start", p |-> p, call |-> "release", outcome |-> o])
  \/ \E p \in P : PassRelExit(p) /\ Step([a |-> "pass", p |-> p, gate |-> "rel.exit"])
  \/ \E p \in P : Cancel(p) /\ Step([a |-> "cancel", p |-> p])
  \/ Tick /\ Step([a |-> "tick"])

Quiet ==   \* the same steps without the graph emission (for ENABLED)
  \/ \E p \in P : Start(p)
  \/ \E p \in P : PassAcqEnter(p)
  \/ \E p \in P : PassAcqExit(p)
  \/ \E p \in P : ChildPass(p)
  \/ \E p \in P, o \in Outcomes : Release(p, o)
  \/ \E p \in P : PassRelExit(p)
  \/ \E p \in P : Cancel(p)
  \/ Tick

EmitInit == Emit => /\ PrintT(<<"I", ToJson([st |-> St, obs |-> Obs])>>)
                    /\ PrintT(<<"C", ToJson([kind |-> Kind, limit |-> Limit, poll |-> Poll, deadline |-> Deadline,
                                             procs |-> P, fine |-> Fine, blackbox |-> FALSE, allserved |-> FALSE, recheck |-> Recheck, cancellable |-> Cancellable, horizon |-> MaxTime])>>)
InitE == Init /\ EmitInit
Spec == Init /\ [][Next]_vars

(* -------------------------------------------------------------------- contract (A) *)
(* Stable: nobody is parked at a gate, i.e. every call in progress is asleep inside the      *)
(* library; only a further release, a timer or a cancellation can change anything.           *)
Stable == \A p \in P : pc[p] \in {"idle", "select", "held", "done"} /\ kid[p] # "starting"
                       /\ ~(pc[p] = "select" /\ rdy[p])

Blocked(p) == pc[p] = "select"

(* C02: the delegate's count is exactly the tokens granted and not yet completed *)
Conservation == held = Cardinality({p \in P : pc[p] = "held" \/ (pc[p] = "acqExit" /\ got[p])})
NeverOver == held <= Limit

(* C10: no caller sleeps while capacity is free (in a stable state) *)
NoLostWakeup == Stable => \A p \in P : Blocked(p) => held >= Limit
(* the same, excluding exactly the recorded finding P2 *)
NoLostWakeupExceptKnown == Stable => \A p \in P : (Blocked(p) /\ held < Limit) => lw[p]

(* C13 *)
DeadlineBound == (Stable /\ Kind = "deadline" /\ now >= Deadline) => \A p \in P : ~Blocked(p)
CancelBound == Stable => \A p \in P : cancelled[p] => ~Blocked(p)
NoEarlyRefusal ==
  [][\A p \in P : (res[p] = "none" /\ res'[p] = "refused") =>
        (cancelled'[p] \/ (Kind = "deadline" /\ now' >= Deadline))]_vars
RefusedHoldsNothing == \A p \in P : res[p] = "refused" => pc[p] = "done"

(* C19 liveness shape: with every holder completing, every caller is eventually answered *)
AllAnswered == \A p \in P : pc[p] \in {"held", "done"}

(* C19 / C10 liveness shape on a finite acyclic graph: every maximal behaviour ends in a state *)
(* without successors; if every such state has all callers granted and completed, then under  *)
(* fairness every caller is eventually served (use with no cancellation and no time-outs).     *)
TerminalAllServed == (~ENABLED Quiet) => \A p \in P : pc[p] = "done" /\ res[p] = "granted"

(* -------------------------------------------------------------------- liveness under fairness *)
(* The library's own steps are weakly fair per caller; the environment (a caller arriving, a holder *)
(* completing, a cancellation, time passing) is not.  Checked with SPECIFICATION LiveSpec / ServeSpec *)
(* (no emission, no state constraint: the graphs are finite because MaxTime and the one call per     *)
(* caller bound them).                                                                               *)
Internal(p) == PassAcqEnter(p) \/ PassAcqExit(p) \/ ChildPass(p) \/ PassRelExit(p)
LiveSpec == Init /\ [][Quiet]_vars /\ \A p \in P : WF_vars(Internal(p))
(* C10: a caller asleep while capacity is free is woken (or the capacity is taken) without any help *)
WakeUp == \A p \in P : (Blocked(p) /\ held < Limit) ~> (~Blocked(p) \/ held >= Limit)
(* C13: a cancelled sleeper returns; past the deadline nobody sleeps *)
CancelWakes == \A p \in P : (cancelled[p] /\ Blocked(p)) ~> ~Blocked(p)
DeadlineWakes == \A p \in P : (Kind = "deadline" /\ now >= Deadline /\ Blocked(p)) ~> ~Blocked(p)
(* C19: if moreover every caller arrives and every holder completes, every caller is served *)
ServeSpec == LiveSpec /\ \A p \in P : WF_vars(Start(p)) /\ WF_vars(\E o \in Outcomes : Release(p, o))
AllServed == <>[](\A p \in P : pc[p] = "done" /\ res[p] = "granted")
=================================================================================
