//go:build verif

package harness

import (
	"encoding/json"
	"path/filepath"
	"testing"

	"github.com/platinummonkey/go-concurrency-limits/limit"
)

// TestWindowedRandom records seeded OnSample sequences of real WindowedLimits over a recording
// delegate: every position of a drop inside a window, sub-threshold samples, drop-only windows.
func TestWindowedRandom(t *testing.T) {
	n := envInt("VERIF_N", 150)
	w := newNdWriter(t, filepath.Join(outDir(t), "windowed_trace.ndjson"))
	defer w.close()
	const period = int64(100e6)
	for k := 0; k < n; k++ {
		r := newRng(seed(), uint64(k))
		wsize := r.between(10, 14)
		thr := []int{0, 1, 5, 40}[r.intn(4)]
		del := &ScriptedLimit{est: r.between(1, 50), script: []int{r.between(1, 50), r.between(1, 50), r.between(1, 50)}}
		wl, err := limit.NewWindowedLimit("win", period, period, int32(wsize), int64(thr), del, nil)
		if err != nil {
			t.Fatal(err)
		}
		if k%2 == 1 {
			windowedGeneral(t, w, k, r, wsize)
			continue
		}
		if k%8 == 0 {
			tracedForward(w, k, r)
			continue
		}
		w.write(J{"ev": "Reset", "trace": k, "cfg": J{"wsize": wsize, "threshold": thr, "general": false}})
		T := 1
		nops := r.between(30, 120)
		for i := 0; i < nops; i++ {
			if r.chance(1, 3) {
				T += r.between(1, 2)
			}
			rtt := r.between(0, 60)
			if r.chance(1, 5) {
				rtt = r.between(0, 1000)
			}
			infl := r.between(0, 30)
			drop := r.chance(1, 6)
			ext := false
			if r.chance(1, 10) {
				ext = true
				// the delegate's estimate moves without the wrapper (an explicit set, or the delegate being sampled directly)
				del.mu.Lock()
				del.est = r.between(1, 50)
				del.mu.Unlock()
			}
			before := len(del.Samples)
			wl.OnSample(int64(T)*period, int64(rtt), infl, drop)
			out := []J{}
			for _, s := range del.Samples[before:] {
				// ScriptedLimit reports RTTs in ticks of 1 ms: here they are plain nanoseconds
				ns := s["rtt"].(int64) * int64(tickDur)
				if rem, ok := s["rtt_ns_remainder"]; ok {
					ns += rem.(int64)
				}
				out = append(out, J{"rtt": ns, "inflight": s["inflight"], "drop": s["drop"]})
			}
			w.write(J{"ev": "Sample", "trace": k, "in": J{"t": T, "rtt": rtt, "inflight": infl, "drop": drop}, "out": out,
				"est": wl.EstimatedLimit(), "dest": del.EstimatedLimit(), "ext": ext})
		}
	}
}

// debugLogger is a limit.Logger with debug output enabled that discards what it is given.
type debugLogger struct{}

func (debugLogger) Debugf(string, ...interface{}) {}
func (debugLogger) IsDebugEnabled() bool          { return true }

// tracedForward records one sequence on a TracedLimit (with a silent or a debug-enabled logger) over a recording
// delegate: every sample reaches the delegate at once and unchanged, and the wrapper reports the delegate's estimate.
func tracedForward(w *ndWriter, k int, r *rng) {
	del := &ScriptedLimit{est: r.between(1, 50), script: []int{r.between(1, 50), r.between(1, 50), r.between(1, 50), r.between(1, 50)}}
	var lg limit.Logger = limit.NoopLimitLogger{}
	mode := "noop"
	if r.chance(2, 3) {
		lg, mode = debugLogger{}, "debug"
	}
	tl := limit.NewTracedLimit(del, lg)
	w.write(J{"ev": "Reset", "trace": k, "cfg": J{"wsize": 0, "threshold": 0, "general": false, "traced": mode}})
	for i, nops := 0, r.between(20, 60); i < nops; i++ {
		rtt := []int{0, 1, 999, 250000, 499999, 500000, 12345678, 10000000, r.between(0, 2000000000)}[r.intn(9)]
		infl := r.between(0, 30)
		drop := r.chance(1, 6)
		before := len(del.Samples)
		tl.OnSample(int64(i)*1000, int64(rtt), infl, drop)
		out := []J{}
		for _, s := range del.Samples[before:] {
			ns := s["rtt"].(int64) * int64(tickDur)
			if rem, ok := s["rtt_ns_remainder"]; ok {
				ns += rem.(int64)
			}
			out = append(out, J{"rtt": ns, "inflight": s["inflight"], "drop": s["drop"]})
		}
		w.write(J{"ev": "Sample", "trace": k, "in": J{"t": i, "rtt": rtt, "inflight": infl, "drop": drop}, "out": out,
			"est": tl.EstimatedLimit(), "dest": del.EstimatedLimit(), "ext": false})
	}
}

// windowedGeneral records one sequence on a WindowedLimit whose minimum and maximum window times differ: the period
// of each window follows the least success RTT of the window that closed (Fold2 of spec/Windowed.tla). All times are
// whole milliseconds.
func windowedGeneral(t *testing.T, w *ndWriter, k int, r *rng, wsize int) {
	const ms = int64(1e6)
	minw := []int{100, 150}[r.intn(2)]
	maxw := []int{minw, 300, 600}[r.intn(3)]
	thr := []int{0, 1, 5, 40}[r.intn(4)]
	del := &ScriptedLimit{est: r.between(1, 50), script: []int{r.between(1, 50), r.between(1, 50)}}
	wl, err := limit.NewWindowedLimit("win", int64(minw)*ms, int64(maxw)*ms, int32(wsize), int64(thr)*ms, del, nil)
	if err != nil {
		t.Fatal(err)
	}
	w.write(J{"ev": "Reset", "trace": k, "cfg": J{"wsize": wsize, "threshold": thr, "minw": minw, "maxw": maxw, "general": true}})
	start := 10
	for i, nops := 0, r.between(40, 140); i < nops; i++ {
		start += r.between(0, 90)
		rtt := r.between(20, 220)
		switch r.intn(8) {
		case 0:
			rtt = r.between(0, 6)
		case 1:
			rtt = r.between(250, 400)
		}
		infl := r.between(0, 30)
		drop := r.chance(1, 6)
		before := len(del.Samples)
		wl.OnSample(int64(start)*ms, int64(rtt)*ms, infl, drop)
		out := []J{}
		for _, s := range del.Samples[before:] {
			rem := int64(0)
			if x, ok := s["rtt_ns_remainder"]; ok {
				rem = x.(int64)
			}
			out = append(out, J{"rtt": s["rtt"], "rem": rem, "inflight": s["inflight"], "drop": s["drop"]})
		}
		w.write(J{"ev": "Sample", "trace": k, "in": J{"s": start, "rtt": rtt, "inflight": infl, "drop": drop}, "out": out,
			"est": wl.EstimatedLimit(), "dest": del.EstimatedLimit(), "ext": false})
	}
}

// windowedSUT drives a real WindowedLimit through the transitions of spec/WindowedMC.tla.
type windowedSUT struct {
	wl  *limit.WindowedLimit
	del *ScriptedLimit
}

func (s *windowedSUT) applyRaw(raw json.RawMessage) (any, error) {
	var op struct {
		T        int  `json:"t"`
		Rtt      int  `json:"rtt"`
		Inflight int  `json:"inflight"`
		Drop     bool `json:"drop"`
	}
	if err := json.Unmarshal(raw, &op); err != nil {
		return nil, err
	}
	before := len(s.del.Samples)
	s.wl.OnSample(int64(op.T)*100e6, int64(op.Rtt), op.Inflight, op.Drop)
	out := []J{}
	for _, sm := range s.del.Samples[before:] {
		ns := sm["rtt"].(int64) * int64(tickDur)
		if rem, ok := sm["rtt_ns_remainder"]; ok {
			ns += rem.(int64)
		}
		out = append(out, J{"rtt": ns, "inflight": sm["inflight"], "drop": sm["drop"]})
	}
	return J{"out": out}, nil
}
func (s *windowedSUT) observe() any { return J{"nclosed": 0} }

// TestWindowedReplay: model -> code replay of the Windowed contract graph.
func TestWindowedReplay(t *testing.T) {
	files, _ := filepath.Glob(filepath.Join(filepath.Dir(inFile(t, "x")), "windowed_*.ndjson"))
	var reps []*gReport
	for _, f := range files {
		rep := replayGraph(t, f, func(raw json.RawMessage) (sut, error) {
			var c struct{ WSize, Threshold int }
			if err := json.Unmarshal(raw, &c); err != nil {
				return nil, err
			}
			del := &ScriptedLimit{est: 5}
			wl, err := limit.NewWindowedLimit("w", 100e6, 100e6, int32(c.WSize), int64(c.Threshold), del, nil)
			if err != nil {
				return nil, err
			}
			return &windowedSUT{wl: wl, del: del}, nil
		})
		t.Logf("%s: %s", filepath.Base(f), rep)
		reps = append(reps, rep)
	}
	writeJSON(t, filepath.Join(outDir(t), "windowed_replay.json"), reps)
}
