CONSTANT Emit = TRUE
INIT Init
NEXT Next
INVARIANT OnceOrNever
CHECK_DEADLOCK FALSE
