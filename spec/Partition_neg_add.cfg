CONSTANTS Kind = "predicate" VarUnknown = "contract" VarAdd = "asbuilt" InitLimit = 2 Limits = {0, 1, 2, 4} MaxOut = 5 Emit = FALSE
INIT Init
NEXT Next
INVARIANTS InvBinsSum InvShares InvNonNeg InvGuaranteed
CHECK_DEADLOCK FALSE
