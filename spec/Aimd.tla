----------------------------------- MODULE Aimd -----------------------------------
(* Exact model of limit/aimd.go (all-integer for dyadic back-off ratios), properties C06 / C07 *)
(* / C04 / C16 for AIMD.  Every transition is printed for the harness (model -> code replay:   *)
(* the real AIMDLimit is driven through every (limit, sample class) pair of the graph).        *)
EXTENDS Integers, Sequences, TLC, Json

CONSTANTS BNum, BDen, Inc, Initial, MaxL, Emit

VARIABLES lim, lastNote
vars == <<lim, lastNote>>

Max(a, b) == IF a > b THEN a ELSE b
Min(a, b) == IF a < b THEN a ELSE b
Drop(L) == Max(1, Min(L - 1, (L * BNum) \div BDen))

(* sample classes: drop (any in-flight), saturated (inflight >= limit), app-limited (inflight < limit) *)
Ops == {"drop", "sat", "sat+", "app", "app0"}
Inflight(op, L) == CASE op = "sat" -> L [] op = "sat+" -> L + 7 [] op = "app" -> L - 1 [] op = "app0" -> 0 [] OTHER -> L \div 2
Apply(L, op) == IF op = "drop" THEN Drop(L) ELSE IF op \in {"sat", "sat+"} THEN L + Inc ELSE L

Init == /\ lim = Initial
        /\ lastNote = -1
        /\ Emit => /\ PrintT(<<"C", ToJson([bnum |-> BNum, bden |-> BDen, inc |-> Inc, initial |-> Initial])>>)
                   /\ PrintT(<<"I", ToJson([est |-> Initial])>>)
Next == \E op \in Ops :
          /\ Apply(lim, op) <= MaxL
          /\ lim' = Apply(lim, op)
          /\ lastNote' = IF op \in {"drop", "sat", "sat+"} THEN Apply(lim, op) ELSE -1
          /\ Emit => PrintT(<<"T", ToJson([from |-> [est |-> lim], op |-> [op |-> op, inflight |-> Inflight(op, lim), drop |-> op = "drop"],
                                           res |-> [notified |-> lastNote'], to |-> [est |-> lim']])>>)

(* C06: a drop never raises the limit and lowers it whenever it is above 1 *)
DropLowers == Drop(lim) <= lim /\ (lim > 1 => Drop(lim) < lim)
(* a sustained run of drops reaches the floor within lim samples *)
RECURSIVE Iter(_, _)
Iter(L, n) == IF n = 0 THEN L ELSE Iter(Drop(L), n - 1)
DropRunReachesFloor == Iter(lim, lim) = 1
Bounds == lim >= 1
Notified == lastNote \in {-1, lim}
=================================================================================
