------------------------------- MODULE PartitionMC -------------------------------
(* Exhaustive exploration of the Partition contract for small constants.  Every transition  *)
(* is printed as JSON ("T" lines) so that the harness can drive the real strategies through *)
(* every edge of the state graph (model -> code replay).                                    *)
EXTENDS Partition, TLC, Json

CONSTANTS Kind, VarUnknown, VarAdd, InitLimit, Limits, MaxOut, Emit

Keys == {"a", "b", "z", "Z"}   \* "Z" reaches pc only through its case-insensitive matcher

MCcfg ==
  [kind |-> Kind, den |-> 4, limit |-> InitLimit,
   objs |-> [pa |-> [name |-> "a", num |-> 1, match |-> <<"a">>, built |-> 1, ci |-> FALSE],
             pb |-> [name |-> "b", num |-> 2, match |-> <<"b", "a">>, built |-> 1, ci |-> FALSE],
             pc |-> [name |-> "a", num |-> 1, match |-> <<"a", "z">>, built |-> 1, ci |-> TRUE]],
   lower |-> [a |-> "a", b |-> "b", z |-> "z", Z |-> "z", A |-> "a", B |-> "b"],
   init |-> <<"pa", "pb">>,
   variant |-> [unknown |-> VarUnknown, add |-> VarAdd]]

VARIABLE s

Bins == ObjIds(MCcfg) \cup (IF Kind = "lookup" THEN {UNKNOWN} ELSE {})

Ops == [op : {"try"}, key : Keys]
       \cup [op : {"rel"}, bin : Bins]
       \cup [op : {"set"}, v : Limits]
       \cup [op : {"add"}, obj : ObjIds(MCcfg)]
       \cup [op : {"rem"}, key : Keys]

Init == /\ s = InitState(MCcfg)
        /\ Emit => /\ PrintT(<<"C", ToJson(MCcfg)>>)
                   /\ PrintT(<<"I", ToJson(Obs(MCcfg, s))>>)

Next == \E op \in Ops :
          /\ OpEnabled(MCcfg, s, op)
          /\ LET r == Apply(MCcfg, s, op) IN
               /\ r.st.busy <= MaxOut
               /\ s' = r.st
               /\ Emit => PrintT(<<"T", ToJson([from |-> Obs(MCcfg, s), op |-> op, res |-> r.res,
                                                to |-> Obs(MCcfg, r.st)])>>)

Spec == Init /\ [][Next]_s

InvBinsSum == BinsSumToTotal(MCcfg, s)
InvShares == SharesCurrent(MCcfg, s)
InvNonNeg == NonNegative(MCcfg, s)
InvGuaranteed == GuaranteedShare(MCcfg, s, Keys)
(* borrowing stops at the total limit: tokens beyond the limit in force are all covered by   *)
(* guaranteed shares (only meaningful while the limit has not been lowered: checked with     *)
(* Limits = {InitLimit}).                                                                    *)
InvBorrowBound ==
  s.busy <= s.limit + Sum([o \in ObjIds(MCcfg) |-> s.ol[o]], ObjIds(MCcfg)) + s.ul
=================================================================================
