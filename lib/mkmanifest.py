#!/usr/bin/env python3
"""Regenerates /verif/MANIFEST.json from the table below (run after adding or removing a check)."""
import json
import os

VERIF = os.path.dirname(os.path.dirname(os.path.abspath(__file__)))

WRAP_NOTE = ("Exhaustive only within the stated constants (2-4 processes, limit 1-2, backlog <= 3, a few ticks); schedule points exist only at the gates "
             "(delegate Acquire entry/exit, delegate completion exit, queue.afterPush, block.childStart); testing/synctest's virtual clock (exact, urgent timers); "
             "TLC 1.8 and the CommunityModules Json module are trusted.")
WRAP_TECH = ("implementation-shaped TLA+ models (spec/Blocking.tla, spec/QueueBlocking.tla) model-checked by TLC against the contract invariants; every transition of "
             "their state graphs replayed on the real limiters through gates inside a synctest bubble; recorded executions validated by TLC against the contract spec/WrapperTrace.tla")

CHECKS = {
    "C03": dict(
        technique="TLA+ contract (spec/Partition.tla) checked by TLC; every transition of the TLC state graph replayed on the real strategies; recorded random histories validated against the contract by TLC (PartitionTrace)",
        text="The admission rule, shares and bin accounting are a deterministic TLA+ contract. TLC enumerates its full state graph for small constants and the harness executes every transition on the real lookup and predicate strategies comparing result and projected state; long random histories with large limits and dynamic partitions are validated in the other direction by TLC.",
        ref="5 C03",
        note="Bounded constants in the exhaustive part (3 partition objects, quarters, limits 1..4, <=5-7 tokens); dyadic fractions so float rounding cannot differ; sequential drivers (the strategy serialises calls behind one mutex)."),
    "C10": dict(
        technique=WRAP_TECH,
        text="TLC checks NoLostWakeup (no caller asleep while capacity is free in a stable state) and TerminalAllServed on the implementation-shaped models of the blocking, deadline and queue limiters for every interleaving of 2-4 callers with releases, timers and cancellations; the as-delivered designs are kept as negative configurations that must violate it. Every transition of those graphs is then forced on the real code (gates + virtual clock) and the recorded executions are accepted or rejected by the contract.",
        ref="5 C10", note=WRAP_NOTE),
    "C11": dict(
        technique=WRAP_TECH + "; free-running seeded scenarios over every constructor (configuration, defaults, deprecated constructors, pools)",
        text="The contract checks every hand-off choice against the callers still queued in arrival order (oldest for FIFO, newest for LIFO), with the expected order per constructor taken from its name and documentation. Explored: all interleavings of the queue model (FIFO and LIFO, give-ups racing with hand-offs) replayed on the real limiter, plus seeded histories for all 14 ways of constructing a queue limiter or pool.",
        ref="5 C11", note=WRAP_NOTE),
    "C12": dict(
        technique=WRAP_TECH,
        text="TLC checks BacklogBounded and BacklogExact (backlog = callers blocked, in stable states) on the queue model including hand-offs racing with time-outs and cancellations; the contract checks the reported queue_size gauge against the callers actually blocked after every stable step of the replayed and free-running executions, and that a refusal at a full backlog takes no virtual time.",
        ref="5 C12", note=WRAP_NOTE),
    "C13": dict(
        technique=WRAP_TECH,
        text="Virtual-clock bounds: TLC checks DeadlineBound, TimeoutBound, CancelBound and NoEarlyRefusal on the models with Tick allowed between any two gates; the contract rejects a caller blocked at or past its bound in a stable state (class bound) and a refusal without a reason (class early) in every recorded execution, with instants exact to the tick.",
        ref="5 C13", note=WRAP_NOTE),
    "C19": dict(
        technique=WRAP_TECH + "; free-running pool scenarios (fixed and generic pools, FIFO/LIFO/random) with 'everyone is served' runs",
        text="Never more than the limit held: the contract's atomic-gate check on every delegate attempt and every grant (black-box mode for the fixed pool). Everyone served: TLC's TerminalAllServed on the acyclic models (every maximal behaviour ends with all callers granted and completed) and, on the real pools, seeded runs with callers <= limit + backlog whose every refusal or unanswered caller is rejected (class starved).",
        ref="5 C19", note=WRAP_NOTE),
}

NOT_APPLICABLE = {
    "C17": "data-race freedom is a property of memory accesses; a TLA+ specification abstracts each critical section to one action and cannot observe unsynchronised accesses (needs a happens-before race detector, a different technique family)",
}

ALL = ["C%02d" % i for i in range(1, 21)]


def main():
    hooks = json.load(open(os.path.join(VERIF, "hooks.json")))
    checks = []
    for pid in ALL:
        if pid not in CHECKS:
            continue
        c = CHECKS[pid]
        checks.append({
            "property_id": pid,
            "quick_cmd": "bin/check %s --tier quick" % pid,
            "thorough_cmd": "bin/check %s --tier thorough" % pid,
            "evidence_file": "/verif/evidence/%s.json" % pid,
            "replay_cmd_template": "bin/check %s --tier quick  # replay file {path} holds the schedule, the recorded trace and the rejected step" % pid,
            "engine": "check",
            "technique": c["technique"],
            "level_claimed": {"category": "model_checking", "text": c["text"], "design_ref": c["ref"]},
            "level_note": c["note"],
        })
    na = [{"property_id": p, "reason": r} for p, r in NOT_APPLICABLE.items()]
    for pid in ALL:
        if pid not in CHECKS and pid not in NOT_APPLICABLE:
            na.append({"property_id": pid, "reason": "check not built yet (work in progress; see DESIGN.md section 10)"})
    m = {
        "version": 1,
        "setup_cmd": "cd /verif && GOFLAGS=-mod=mod GOPROXY=off GOSUMDB=off GOTOOLCHAIN=local sh -c 'cp /repo/go.sum harness/go.sum && cd harness && go1.26.8 vet -tags verif . && cd /verif/spec && for m in *.tla; do tla-sany $m >/dev/null || exit 1; done'",
        "hooks": hooks,
        "engines": [{"name": "check", "path": "/verif/bin/check", "serves_properties": sorted(CHECKS),
                     "kind_free_text": "python orchestrator: TLC (mc / neg / graph emission / trace validation) + Go harness (replay of TLC state graphs and schedules into the real code under testing/synctest, recorded traces)"}],
        "checks": checks,
        "not_applicable": na,
        "notes": "Every check rebuilds the harness from /repo's working tree with -tags verif. known_findings.json lists recorded and fixed defects; DESIGN.md explains the approach.",
    }
    with open(os.path.join(VERIF, "MANIFEST.json"), "w") as f:
        json.dump(m, f, indent=1)
    print("MANIFEST.json: %d checks, %d not applicable" % (len(checks), len(na)))


if __name__ == "__main__":
    main()
