--------------------------------- MODULE LimitTrace ---------------------------------
(* Contract (A) that every built-in limit algorithm - AIMD, Vegas, Gradient, Gradient2, bare  *)
(* or wrapped by the traced / windowed limit - must satisfy sample by sample, as a trace       *)
(* acceptor for recorded sample sequences (code -> model): properties C04 C06 C07 C15 C16 and  *)
(* the per-sample emission of C20.  The harness logs a Reset line with the configuration, one  *)
(* Sample line per OnSample (inputs, the estimate reported afterwards, panic flag, the no-load  *)
(* baseline, whether the sample was a probe, the change notifications delivered, the metric     *)
(* samples emitted), Register lines and RunEnd lines closing a drop run / healthy run.          *)
(*                                                                                             *)
(* RTTs and baselines are 63-bit values: they are logged as three 21-bit chunks (most           *)
(* significant first) for which lexicographic order is numeric order (TLC integers are 32-bit). *)
(*   bounds    est is a finite integer, floor <= est <= max(ceil, initial), no panic   (C04)    *)
(*   loss      a drop never raises the estimate (AIMD, Vegas, Gradient); AIMD moves     (C06)    *)
(*             exactly to max(1, min(est-1, floor(est*backoff)))                                *)
(*   demand    a non-drop sample with 2*inflight < est (inflight < est for AIMD)        (C07)    *)
(*             never raises the estimate; AIMD +inc and Gradient +queue per healthy sample;     *)
(*             a drop run reaches the floor and a healthy run the ceiling within the bound      *)
(*   baseline  baseline is unset or <= the sample's RTT, equals an RTT seen since the   (C15)    *)
(*             last reset, resets recur within the bound                                        *)
(*   notify    a changed estimate was notified to every listener, last value = estimate (C16)    *)
(*             - also for the settable limit (Set records: the estimate is the value set) and,  *)
(*             like the fixed limit, no sample moves it                                         *)
(*   metrics   one RTT and one in-flight sample, a drop increment iff drop              (C20)    *)
EXTENDS Integers, Sequences, FiniteSets, TLC, Json, IOUtils

Log == ndJsonDeserialize(IOEnv.VERIF_TRACE)

VARIABLES l, ok, cfg, st
vars == <<l, ok, cfg, st>>

Max(a, b) == IF a > b THEN a ELSE b
Min(a, b) == IF a < b THEN a ELSE b

(* lexicographic order on chunk triples *)
Le3(a, b) == \/ a[1] < b[1]
             \/ (a[1] = b[1] /\ a[2] < b[2])
             \/ (a[1] = b[1] /\ a[2] = b[2] /\ a[3] <= b[3])

LossSensitive(c) == c.algo \in {"aimd", "vegas", "gradient"}
Bare(c) == c.wrap = "none"
Upper(c) == IF c.ceil < 0 THEN 2000000000 ELSE Max(c.ceil, c.initial)

AimdDrop(c, e) == Max(1, Min(e - 1, (e * c.bnum) \div c.bden))

(* app-limited: in-flight below the estimate (AIMD) / strictly below half of the estimate the algorithm holds (the others: *)
(* the harness evaluates that on the un-truncated value read through the verif accessor, logged as applim)               *)
AppLimited(c, e, inflight, o) ==
  IF c.algo = "aimd" THEN inflight < e
  ELSE IF "applim" \in DOMAIN o THEN o.applim
  ELSE inflight <= (e - 1) \div 2 /\ e > 0

InitSt(c, e, nl) == [est |-> e, listeners |-> nl, seen |-> {}, since |-> 0, maxest |-> e, nrej |-> 0]

(* the first reason (class, text) why this sample is not a behaviour of the contract, or <<>> *)
Check(c, s, i, o) ==
  LET e == o.est
      prev == s.est
      rtt == i.rttf   \* the RTT as a float64 (the algorithms keep baselines in float64; identical below 2^53)
      ids == {j \in 1..s.listeners : TRUE}
      Notes(j) == IF ToString(j) \in DOMAIN o.notes THEN o.notes[ToString(j)] ELSE <<>>
  IN
  IF o.panic THEN <<"bounds", "OnSample or EstimatedLimit panicked">>
  ELSE IF o.class # "ok" THEN <<"bounds", "the estimate is not a finite integer">>
  ELSE IF e < c.floor THEN <<"bounds", "estimate below the floor">>
  ELSE IF e > Upper(c) THEN <<"bounds", "estimate above the ceiling">>
  ELSE IF Bare(c) /\ LossSensitive(c) /\ i.drop /\ e > prev THEN <<"loss", "a drop raised the estimate">>
  ELSE IF Bare(c) /\ c.algo = "aimd" /\ i.drop /\ e # AimdDrop(c, prev) THEN <<"loss", "AIMD drop is not max(1, min(est-1, floor(est*backoff)))">>
  ELSE IF Bare(c) /\ ~i.drop /\ AppLimited(c, prev, i.inflight, o) /\ e > prev THEN <<"demand", "an app-limited sample raised the estimate">>
  ELSE IF Bare(c) /\ c.algo = "aimd" /\ ~i.drop /\ i.inflight >= prev /\ e # prev + c.inc THEN <<"demand", "AIMD saturated sample is not +increment">>
  ELSE IF Bare(c) /\ c.algo = "aimd" /\ ~i.drop /\ i.inflight < prev /\ e # prev THEN <<"demand", "AIMD app-limited sample changed the limit">>
  ELSE IF Bare(c) /\ c.algo = "gradient" /\ i.mode = "healthy" /\ ~o.probe /\ e < Min(c.ceil, prev + c.queue)
       THEN <<"demand", "Gradient healthy saturated sample grew by less than the queue allowance">>
  ELSE IF Bare(c) /\ c.algo \in {"vegas", "gradient"} /\ o.baseset /\ ~Le3(o.base, rtt) /\ ~i.zero
       THEN <<"baseline", "baseline above the sample's RTT">>
  ELSE IF Bare(c) /\ c.algo \in {"vegas", "gradient"} /\ o.baseset /\ o.base \notin (IF o.probe /\ c.algo = "gradient" THEN {} ELSE IF o.probe THEN {rtt} ELSE s.seen \cup {rtt})
       THEN <<"baseline", "baseline is not an RTT observed since the last reset">>
  ELSE IF c.algo \in {"settable", "fixed"} /\ e # prev THEN <<"notify", "a sample moved a limit that only an explicit set may move">>
  ELSE IF \E j \in ids : e # prev /\ c.algo # "fixed" /\ Len(Notes(j)) = 0 THEN <<"notify", "the estimate changed and a registered listener was not called">>
  ELSE IF \E j \in ids : Len(Notes(j)) > 0 /\ Notes(j)[Len(Notes(j))] # e THEN <<"notify", "last notified value differs from EstimatedLimit">>
  ELSE IF c.wrap # "windowed" /\ (o.metrics.rtt # 1 \/ o.metrics.inflight # 1 \/ o.metrics.dropped # (IF i.drop THEN 1 ELSE 0))
       THEN <<"metrics", "a processed sample must emit one RTT, one in-flight and a drop increment iff drop">>
  ELSE <<>>

(* Vegas decides per sample from the current estimate: a sample is not a probe only while the samples since the last   *)
(* reset are fewer than jitter (< 1) x multiplier x estimate, estimate < reported integer + 1                          *)
(* an explicit set (settable limit, bare or behind a wrapper): the estimate is the value set; the notification rules *)
(* are those of a sample                                                                                            *)
CheckSet(c, s, v, o) ==
  LET ids == {j \in 1..s.listeners : TRUE}
      Notes(j) == IF ToString(j) \in DOMAIN o.notes THEN o.notes[ToString(j)] ELSE <<>>
  IN
  IF o.panic THEN <<"bounds", "SetLimit or EstimatedLimit panicked">>
  ELSE IF o.est # v THEN <<"notify", "after an explicit set the reported estimate is not the value set">>
  ELSE IF \E j \in ids : o.est # s.est /\ Len(Notes(j)) = 0 THEN <<"notify", "an explicit set changed the estimate and a registered listener was not called">>
  ELSE IF \E j \in ids : Len(Notes(j)) > 0 /\ Notes(j)[Len(Notes(j))] # o.est THEN <<"notify", "last notified value differs from EstimatedLimit">>
  ELSE <<>>

ProbeBound(c, s) == IF c.probemax < 0 THEN c.inc * (s.est + 1) - 1 ELSE c.probemax

After(c, s, i, o) ==
  LET reset == o.probe \/ ~o.baseset IN
  [s EXCEPT !.est = o.est,
            !.maxest = IF o.probe THEN o.est ELSE Max(@, o.est),
            !.seen = IF o.probe /\ c.algo = "vegas" THEN {i.rttf} ELSE IF reset THEN {} ELSE @ \cup {i.rttf},
            !.since = IF o.probe THEN 0 ELSE @ + 1]

Init == l = 1 /\ ok = FALSE /\ cfg = [algo |-> "none"] /\ st = [est |-> 0]

Rej(e, class, why, exp) ==
  PrintT(<<"REJECT", ToJson([trace |-> e.trace, line |-> l, i |-> e.i, class |-> class, why |-> why, expected |-> exp, logged |-> e])>>)

Step ==
  /\ l <= Len(Log) /\ l' = l + 1
  /\ LET e == Log[l] IN
     IF e.ev = "Reset"
     THEN /\ cfg' = e.cfg /\ st' = InitSt(e.cfg, e.obs.est, e.obs.listeners)
          /\ IF e.obs.est = e.cfg.initial THEN ok' = TRUE
             ELSE /\ ok' = FALSE
                  /\ PrintT(<<"REJECT", ToJson([trace |-> e.trace, line |-> l, i |-> 0, class |-> "bounds", why |-> "initial estimate",
                                                expected |-> [est |-> e.cfg.initial], logged |-> e])>>)
     ELSE IF e.ev = "Twin"
     THEN \* C08: two identically prepared instances, last sample differs only in its RTT (lo < hi, both at or above
          \* the baseline, neither a probe): more latency never means more limit
          /\ UNCHANGED <<ok, cfg, st>>
          /\ (~e.skip /\ e.esthi > e.estlo) => Rej(e, "monotone", "the higher RTT produced the higher estimate", [estlo |-> e.estlo, esthi |-> e.esthi])
     ELSE IF e.ev = "Concurrent"
     THEN \* C16 with two samples racing: once both have returned, the last value delivered equals the estimate
          /\ UNCHANGED <<ok, cfg, st>>
          /\ e.last # e.est => Rej(e, "notify", "two concurrent samples: the last value delivered to the listener differs from EstimatedLimit", [est |-> e.est, last |-> e.last])
     ELSE IF e.ev = "Registered"
     THEN \* C16, "any number of listeners registered at any point": eight registrations made at the same instant, then a change -
          \* in no round may a listener have gone untold
          /\ UNCHANGED <<ok, cfg, st>>
          /\ e.lost > 0 => Rej(e, "notify", "listeners registered at the same instant: in some rounds one of them was never told of the next change", [rounds |-> e.rounds, lost |-> e.lost])
     ELSE IF e.ev = "Inside"
     THEN \* C16, seen from inside the notification: a listener that reads the estimate back while it is being told (possible
          \* for the settable limit, whose estimate is read without its mutex, bare or behind a wrapper) reads the value it was given
          /\ UNCHANGED <<ok, cfg, st>>
          /\ (\E i \in 1..Len(e.pairs) : e.pairs[i][1] # e.pairs[i][2]) =>
                Rej(e, "notify", "a listener reading the estimate back during its notification saw another value than it was given", [pairs |-> e.pairs])
          /\ Len(e.pairs) = 0 =>
                Rej(e, "notify", "explicit sets changed the estimate and the registered listener was never told", [sets |-> e.sets])
     ELSE IF e.ev = "Dwell"
     THEN \* C04 on a grid of (smoothing, bound) pairs: the range of the reported estimate while the algorithm is pinned on its
          \* floor and then on its ceiling
          /\ UNCHANGED <<ok, cfg, st>>
          /\ (e.panic \/ ~e.minok \/ e.minest < e.floor \/ e.maxest > e.ceil) =>
                Rej(e, "bounds", IF e.panic THEN "OnSample or EstimatedLimit panicked" ELSE IF ~e.minok THEN "the estimate is not a finite integer"
                                 ELSE IF e.minest < e.floor THEN "estimate below the floor" ELSE "estimate above the ceiling", [floor |-> e.floor, ceil |-> e.ceil])
     ELSE IF e.ev = "Race"
     THEN \* C06 / C07 with two samples racing (one parked while it emits its metrics): OnSample is atomic, i.e. the
          \* estimate once both have returned is the one some serial order of the two produces on identically prepared twins
          /\ UNCHANGED <<ok, cfg, st>>
          /\ (e.est # e.ab /\ e.est # e.ba) => Rej(e, IF e.anydrop THEN "loss" ELSE "demand",
                                                   "two concurrent samples: the estimate is the result of neither serial order", [ab |-> e.ab, ba |-> e.ba])
     ELSE IF ~ok THEN UNCHANGED <<ok, cfg, st>>
     ELSE IF e.ev = "Register" THEN st' = [st EXCEPT !.listeners = e.listeners] /\ UNCHANGED <<ok, cfg>>
     ELSE IF e.ev = "Set"
     THEN LET r == CheckSet(cfg, st, e.v, e.obs) IN
          IF r # <<>> THEN ok' = FALSE /\ UNCHANGED <<cfg, st>> /\ Rej(e, r[1], r[2], [prev |-> st.est, set |-> e.v])
          ELSE st' = [st EXCEPT !.est = e.obs.est] /\ UNCHANGED <<ok, cfg>>
     ELSE IF e.ev = "RunEnd"
     THEN /\ UNCHANGED <<cfg, st>>
          \* (a run that misses its bound leaves the book-keeping intact: report it and judge the rest of the sequence too)
          /\ UNCHANGED ok
          /\ IF e.mode = "droprun" /\ e.est > cfg.floor
             THEN Rej(e, "loss", "a sustained run of drops did not bring the estimate to the floor within the bound", [floor |-> cfg.floor, bound |-> e.bound])
             ELSE IF e.mode = "healthy" /\ e.target >= 0 /\ e.est < e.target
             THEN Rej(e, "demand", "a sustained healthy saturated run did not recover the estimate within the bound", [target |-> e.target, bound |-> e.bound])
             ELSE TRUE
     ELSE \* Sample
       LET r == Check(cfg, st, e.in, e.obs)
           s2 == After(cfg, st, e.in, e.obs)
           \* a rejected sample is reported and the sequence is judged on from the state the object reports (what one
           \* class of defect does to the later samples must not hide another class); after a few rejections, or a panic,
           \* the rest of the sequence is skipped
           giveup == st.nrej >= 3 \/ e.obs.panic
       IN IF r # <<>>
          THEN /\ Rej(e, r[1], r[2], [prev |-> st.est]) /\ UNCHANGED cfg
               /\ IF giveup THEN ok' = FALSE /\ UNCHANGED st ELSE st' = [s2 EXCEPT !.nrej = st.nrej + 1] /\ UNCHANGED ok
          ELSE IF Bare(cfg) /\ cfg.algo \in {"vegas", "gradient"} /\ cfg.probemax # 0 /\ s2.since > ProbeBound(cfg, st)
          THEN /\ Rej(e, "baseline", "no baseline reset within the bound", [bound |-> ProbeBound(cfg, st)]) /\ UNCHANGED cfg
               /\ IF giveup THEN ok' = FALSE /\ UNCHANGED st ELSE st' = [s2 EXCEPT !.nrej = st.nrej + 1, !.since = 0] /\ UNCHANGED ok
          ELSE st' = s2 /\ UNCHANGED <<ok, cfg>>

Done == l > Len(Log) /\ UNCHANGED vars
Next == Step \/ Done
Consumed == (l > Len(Log)) => PrintT(<<"CONSUMED", l - 1>>)
=================================================================================
