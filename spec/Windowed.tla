----------------------------------- MODULE Windowed -----------------------------------
(* Contract of limit/windowed.go (WindowedLimit), the windowed half of C09: a deterministic     *)
(* function Fold(cfg, window, sample) -> [st, out].  Times: start = T * period (period = min =  *)
(* max window time) and RTTs are far smaller than the period, so an instant is the pair         *)
(* <<T, r>> compared lexicographically and the next update time is <<T + 1, r>>.                *)
(*   - a sample (any outcome) with rtt < threshold leaves no trace                              *)
(*   - otherwise it is folded: successes into sum/count, every sample into max in-flight,       *)
(*     a drop sets the window's drop flag                                                       *)
(*   - the window closes when its end passes the next update time and the readiness rule holds  *)
(*     (as implemented and pinned by the repository's windowed_test.go: in-flight of the        *)
(*     closing sample > window size); the delegate then receives exactly once                   *)
(*     (start, mean RTT over the successes (0 if none), max in-flight, drop flag of the WINDOW) *)
EXTENDS Integers, Sequences

Max(a, b) == IF a > b THEN a ELSE b
Empty == [sum |-> 0, count |-> 0, maxin |-> 0, drop |-> FALSE, nu |-> <<0, 0>>]
After(a, b) == a[1] > b[1] \/ (a[1] = b[1] /\ a[2] > b[2])

Fold(c, s, x) ==
  IF x.rtt < c.threshold THEN [st |-> s, out |-> <<>>]
  ELSE LET f == IF x.drop THEN [s EXCEPT !.maxin = Max(@, x.inflight), !.drop = TRUE]
                 ELSE [s EXCEPT !.sum = @ + x.rtt, !.count = @ + 1, !.maxin = Max(@, x.inflight)]
           end == <<x.t, x.rtt>>
       IN IF After(end, s.nu) /\ x.inflight > c.wsize
          THEN [st |-> [Empty EXCEPT !.nu = <<x.t + 1, x.rtt>>],
                out |-> <<[rtt |-> IF f.count = 0 THEN 0 ELSE f.sum \div f.count, inflight |-> f.maxin, drop |-> f.drop]>>]
          ELSE [st |-> f, out |-> <<>>]

(* ---- the general case: window times that differ ------------------------------------------------ *)
(* All times in milliseconds (the harness multiplies by 10^6): a sample starts at x.s, ends at x.s + rtt; the     *)
(* window that closes at `end` opens the next one until end + min(max(2 x least success RTT, minw), maxw)         *)
(* (minw when the window holds no success).  The mean is reported as whole milliseconds plus nanoseconds.         *)
Min(a, b) == IF a < b THEN a ELSE b
Empty2 == [sum |-> 0, count |-> 0, min |-> -1, maxin |-> 0, drop |-> FALSE, nu |-> 0]
Fold2(c, s, x) ==
  IF x.rtt < c.threshold THEN [st |-> s, out |-> <<>>]
  ELSE LET f == IF x.drop THEN [s EXCEPT !.maxin = Max(@, x.inflight), !.drop = TRUE]
                 ELSE [s EXCEPT !.sum = @ + x.rtt, !.count = @ + 1, !.min = IF @ < 0 THEN x.rtt ELSE Min(@, x.rtt),
                                !.maxin = Max(@, x.inflight)]
           end == x.s + x.rtt
       IN IF end > s.nu /\ x.inflight > c.wsize
          THEN LET period == IF f.count = 0 THEN c.minw ELSE Min(Max(2 * f.min, c.minw), c.maxw) IN
               [st |-> [Empty2 EXCEPT !.nu = end + period],
                out |-> <<[rtt |-> IF f.count = 0 THEN 0 ELSE f.sum \div f.count,
                           rem |-> IF f.count = 0 THEN 0 ELSE ((f.sum % f.count) * 1000000) \div f.count,
                           inflight |-> f.maxin, drop |-> f.drop]>>]
          ELSE [st |-> f, out |-> <<>>]

(* ---- the traced wrapper (limit/traced.go): every sample goes to the delegate at once, unchanged (C16) ---- *)
FoldTraced(c, s, x) == [st |-> s, out |-> <<[rtt |-> x.rtt, inflight |-> x.inflight, drop |-> x.drop]>>]

=================================================================================
