INIT Init
NEXT Next
INVARIANT Consumed
CHECK_DEADLOCK FALSE
