//go:build verif

package harness

import (
	"bytes"
	"fmt"
	"path/filepath"
	"reflect"
	"runtime"
	"strings"
	"sync"
	"testing"
	"testing/synctest"
	"time"
	"unsafe"

	"github.com/DataDog/datadog-go/v5/statsd"
	gometrics "github.com/rcrowley/go-metrics"

	"github.com/platinummonkey/go-concurrency-limits/core"
	ddreg "github.com/platinummonkey/go-concurrency-limits/metric_registry/datadog"
	gmreg "github.com/platinummonkey/go-concurrency-limits/metric_registry/gometrics"
)

type nopCloser struct {
	mu sync.Mutex
	bytes.Buffer
}

func (n *nopCloser) Write(p []byte) (int, error) {
	n.mu.Lock()
	defer n.mu.Unlock()
	return n.Buffer.Write(p)
}
func (n *nopCloser) Close() error { return nil }
func (n *nopCloser) text() string {
	n.mu.Lock()
	defer n.mu.Unlock()
	return n.Buffer.String()
}

// TestRegistryRandom records seeded Start / Stop / RegisterGauge / advance / sample sequences of
// the two bundled registries on a virtual clock: polls are counted by counting suppliers, forwarded
// samples are read back from the backend (go-metrics registry contents, statsd datagrams), and a
// poller goroutine left at the end shows as a bubble that cannot exit.
func TestRegistryRandom(t *testing.T) {
	n := envInt("VERIF_N", 100)
	// go-metrics starts one global, never-ending ticker goroutine with its first Meter: start it outside any bubble
	gometrics.NewTimer().Stop()
	w := newNdWriter(t, filepath.Join(outDir(t), "registry_trace.ndjson"))
	defer w.close()
	for k := 0; k < n; k++ {
		k := k
		leaked := false
		var pending []J
		func() {
			defer func() {
				if r := recover(); r != nil {
					leaked = true
				}
			}()
			synctest.Test(t, func(t *testing.T) {
				r := newRng(seed(), uint64(k))
				kind := []string{"gometrics", "datadog"}[k%2]
				freq := r.between(3, 6)
				prefix := []string{"lim.", "x", ""}[r.intn(3)]
				var reg core.MetricRegistry
				var gm gometrics.Registry
				var dd *nopCloser
				var cl *statsd.Client
				effPrefix := prefix
				if kind == "gometrics" {
					gm = gometrics.NewRegistry()
					rr, err := gmreg.NewGoMetricsMetricRegistry(gm, "", prefix, ticks(freq))
					if err != nil {
						t.Fatal(err)
					}
					reg = rr
				} else {
					dd = &nopCloser{}
					var err error
					cl, err = statsd.NewWithWriter(dd, statsd.WithoutTelemetry(), statsd.WithMaxMessagesPerPayload(1), statsd.WithoutClientSideAggregation())
					if err != nil {
						t.Fatal(err)
					}
					rr, err := ddreg.NewMetricRegistryWithClient(cl, prefix, ticks(freq))
					if err != nil {
						t.Fatal(err)
					}
					reg = rr
					defer cl.Close()
				}
				// where the samples are looked for; the naming rule itself is judged by RegistryTrace (TestRegistryNaming)
				if effPrefix == "" {
					effPrefix = "limiter."
				}
				if !strings.HasSuffix(effPrefix, ".") {
					effPrefix += "."
				}
				pending = append(pending, J{"ev": "Reset", "trace": k, "cfg": J{"kind": kind, "freq": freq, "prefix": effPrefix}})
				var mu sync.Mutex
				kill := false
				killed := 0
				polls := map[string]int{}
				listeners := map[string]core.MetricSampleListener{}
				fw := map[string]int{}
				obs := func(returned bool) J {
					mu.Lock()
					defer mu.Unlock()
					p := J{}
					for id, c := range polls {
						p[id] = c
					}
					f := J{}
					for id, c := range fw {
						f[id] = c
					}
					return J{"polls": p, "fw": f, "returned": returned}
				}
				call := func(f func()) bool {
					done := make(chan struct{})
					go func() { f(); close(done) }()
					synctest.Wait()
					select {
					case <-done:
						return true
					default:
						return false
					}
				}
				ids := []string{"limit", "queue_size", "limit.partition"}
				nops := r.between(8, 24)
				stuck := false
				for i := 0; i < nops && !stuck; i++ {
					x := r.intn(100)
					if i == 0 {
						x = 40 // always register one gauge first (it also lets the harness end a leaked poller)
					}
					var op J
					returned := true
					switch {
					case x < 18:
						op = J{"op": "start"}
						returned = call(reg.Start)
					case x < 34:
						op = J{"op": "stop"}
						returned = call(reg.Stop)
					case x < 50:
						id := r.pick(ids)
						op = J{"op": "reg", "id": id}
						mu.Lock()
						if _, has := polls[id]; !has {
							polls[id] = 0
						}
						mu.Unlock()
						reg.RegisterGauge(id, func() (float64, bool) {
							mu.Lock()
							if kill {
								// end of scenario (all observations are logged): a poller that is still alive is a leaked
								// one; end it so that the bubble can exit. The registry mutex it holds during a poll is
								// released first, otherwise a second leaked poller would block on it forever.
								killed++
								mu.Unlock()
								if f := reflect.ValueOf(reg).Elem().FieldByName("mu"); f.IsValid() && f.CanAddr() {
									(*sync.Mutex)(unsafe.Pointer(f.UnsafeAddr())).Unlock()
								}
								runtime.Goexit()
							}
							polls[id]++
							mu.Unlock()
							return 1, true
						})
					case x < 65:
						mk := []string{"distribution", "timing", "count"}[r.intn(3)]
						id := []string{"inflight", "rtt", "dropped", "min_rtt"}[r.intn(4)] + "." + mk[:1]
						op = J{"op": "sample", "kind": mk, "id": id}
						key := mk + ":" + id
						lst := listeners[key]
						if lst == nil {
							switch mk {
							case "distribution":
								lst = reg.RegisterDistribution(id)
							case "timing":
								lst = reg.RegisterTiming(id)
							default:
								lst = reg.RegisterCount(id)
							}
							listeners[key] = lst
						}
						lst.AddSample(3)
						if cl != nil {
							cl.Flush()
						}
						synctest.Wait()
						// read the backend
						cnt := 0
						name := effPrefix + id
						if gm != nil {
							switch m := gm.Get(name).(type) {
							case gometrics.Histogram:
								if mk == "distribution" {
									cnt = int(m.Count())
								}
							case gometrics.Timer:
								if mk == "timing" {
									cnt = int(m.Count())
								}
							case gometrics.Counter:
								if mk == "count" {
									cnt = int(m.Count()) / 3
								}
							}
						} else {
							suffix := map[string]string{"distribution": "|d", "timing": "|ms", "count": "|c"}[mk]
							for _, line := range strings.Split(dd.text(), "\n") {
								if strings.HasPrefix(line, name+":") && strings.Contains(line, suffix) {
									cnt++
								}
							}
						}
						mu.Lock()
						fw[key] = cnt
						mu.Unlock()
					default:
						d := r.between(1, 9)
						op = J{"op": "adv", "d": d}
						time.Sleep(ticks(d))
						synctest.Wait()
					}
					if !returned {
						stuck = true
					}
					pending = append(pending, J{"ev": "Op", "trace": k, "op": op, "obs": obs(returned)})
				}
				if !stuck {
					returned := call(reg.Stop)
					pending = append(pending, J{"ev": "Op", "trace": k, "op": J{"op": "stop"}, "obs": obs(returned)})
					// let some time pass: nothing may be polled any more
					time.Sleep(ticks(2 * freq))
					synctest.Wait()
					pending = append(pending, J{"ev": "Op", "trace": k, "op": J{"op": "adv", "d": 2 * freq}, "obs": obs(true)})
				}
				mu.Lock()
				kill = true
				mu.Unlock()
				for g := 0; g < 6; g++ {
					time.Sleep(ticks(2 * freq))
					synctest.Wait()
				}
				mu.Lock()
				leaked = killed > 0
				mu.Unlock()
			})
		}()
		for _, p := range pending {
			w.write(p)
		}
		w.write(J{"ev": "End", "trace": k, "leaked": leaked})
	}
	// Stop while a poll is in progress (both registries, a few poll frequencies)
	for k2 := 0; k2 < 6; k2++ {
		k2 := k2
		variant := "stop" // (a second Stop or a Start meanwhile: TestRegistryStopOverlap, in real time)
		var line J
		func() {
			defer func() { recover() }()
			synctest.Test(t, func(t *testing.T) {
				freq := 3 + k2%3
				var reg core.MetricRegistry
				if k2%2 == 0 {
					rr, err := gmreg.NewGoMetricsMetricRegistry(gometrics.NewRegistry(), "", "x.", ticks(freq))
					if err != nil {
						t.Fatal(err)
					}
					reg = rr
				} else {
					cl, err := statsd.NewWithWriter(&nopCloser{}, statsd.WithoutTelemetry())
					if err != nil {
						t.Fatal(err)
					}
					defer cl.Close()
					rr, err := ddreg.NewMetricRegistryWithClient(cl, "x.", ticks(freq))
					if err != nil {
						t.Fatal(err)
					}
					reg = rr
				}
				var mu sync.Mutex
				hold := make(chan struct{})
				inPoll := false
				stopReturned := false
				late := 0
				kill := false
				supplier := func(block bool) core.MetricSupplier {
					return func() (float64, bool) {
						mu.Lock()
						if kill {
							mu.Unlock()
							if f := reflect.ValueOf(reg).Elem().FieldByName("mu"); f.IsValid() && f.CanAddr() {
								(*sync.Mutex)(unsafe.Pointer(f.UnsafeAddr())).Unlock()
							}
							runtime.Goexit()
						}
						if stopReturned {
							late++
						}
						first := block && !inPoll
						if first {
							inPoll = true
						}
						mu.Unlock()
						if first {
							<-hold
						}
						return 1, true
					}
				}
				reg.RegisterGauge("a", supplier(true))
				reg.RegisterGauge("b", supplier(true))
				reg.RegisterGauge("c", supplier(true))
				reg.Start()
				time.Sleep(ticks(freq))
				synctest.Wait() // the poller is inside the first supplier it called
				stopDone := make(chan struct{})
				go func() {
					reg.Stop()
					mu.Lock()
					stopReturned = true
					mu.Unlock()
					close(stopDone)
				}()
				synctest.Wait()
				mu.Lock()
				whilePolling := stopReturned
				mu.Unlock()
				close(hold)
				synctest.Wait()
				time.Sleep(ticks(3 * freq))
				synctest.Wait()
				after := false
				select {
				case <-stopDone:
					after = true
				default:
				}
				mu.Lock()
				line = J{"ev": "StopRace", "trace": 100000 + k2, "returnedwhilepolling": whilePolling, "late": late, "returnedafter": after, "kind": []string{"gometrics", "datadog"}[k2%2], "variant": variant}
				kill = true
				mu.Unlock()
				for g := 0; g < 4; g++ {
					time.Sleep(ticks(2 * freq))
					synctest.Wait()
				}
			})
		}()
		if line != nil {
			w.write(line)
		}
	}
	_ = fmt.Sprint
}

// TestRegistryStopOverlap runs, in real time, a second Stop or a Start while a first Stop waits for a poll in progress (a
// gauge supplier that has not returned): the second Stop waits as well, the first Stop returns once the poll is over
// whatever else was called meanwhile, and a Start that overlapped leaves exactly one poller, which the next Stop ends.
func TestRegistryStopOverlap(t *testing.T) {
	w := newNdWriter(t, filepath.Join(outDir(t), "registry_overlap_trace.ndjson"))
	defer w.close()
	gometrics.NewTimer().Stop()
	k := 0
	for _, kind := range []string{"gometrics", "datadog"} {
		for _, variant := range []string{"stop+stop", "stop+start"} {
			var reg core.MetricRegistry
			if kind == "gometrics" {
				rr, err := gmreg.NewGoMetricsMetricRegistry(gometrics.NewRegistry(), "", "x.", 3*time.Millisecond)
				if err != nil {
					t.Fatal(err)
				}
				reg = rr
			} else {
				cl, err := statsd.NewWithWriter(&nopCloser{}, statsd.WithoutTelemetry())
				if err != nil {
					t.Fatal(err)
				}
				defer cl.Close()
				rr, err := ddreg.NewMetricRegistryWithClient(cl, "x.", 3*time.Millisecond)
				if err != nil {
					t.Fatal(err)
				}
				reg = rr
			}
			var mu sync.Mutex
			hold, inPollCh := make(chan struct{}), make(chan struct{})
			inPoll, anyStopReturned, polling := false, false, 0
			reg.RegisterGauge("a", func() (float64, bool) {
				mu.Lock()
				first := !inPoll
				inPoll = true
				polling++
				mu.Unlock()
				if first {
					close(inPollCh)
					<-hold
				}
				mu.Lock()
				polling--
				mu.Unlock()
				return 1, true
			})
			reg.Start()
			select {
			case <-inPollCh:
			case <-time.After(2 * time.Second):
				t.Fatalf("%s: the poller never polled", kind)
			}
			stop1, startDone := make(chan struct{}), make(chan struct{})
			go func() {
				reg.Stop()
				mu.Lock()
				anyStopReturned = true
				mu.Unlock()
				close(stop1)
			}()
			time.Sleep(20 * time.Millisecond)
			if variant == "stop+stop" {
				go func() {
					reg.Stop()
					mu.Lock()
					anyStopReturned = true
					mu.Unlock()
				}()
			} else {
				go func() { reg.Start(); close(startDone) }()
			}
			time.Sleep(30 * time.Millisecond)
			mu.Lock()
			whilePolling := anyStopReturned // a Stop has returned although the poller is still inside its poll
			mu.Unlock()
			close(hold)
			after := false
			select {
			case <-stop1:
				after = true
			case <-time.After(2 * time.Second):
			}
			if variant == "stop+start" {
				// the Start that overlapped takes effect after the first Stop: let it, before the registry is stopped for good
				select {
				case <-startDone:
				case <-time.After(2 * time.Second):
					after = false
				}
			}
			// whatever is running now is ended by one more Stop; afterwards nothing polls
			lastStop := make(chan struct{})
			go func() { reg.Stop(); close(lastStop) }()
			select {
			case <-lastStop:
			case <-time.After(2 * time.Second):
				after = false
			}
			time.Sleep(15 * time.Millisecond)
			mu.Lock()
			before := polling
			mu.Unlock()
			late := 0
			cnt := 0
			probe := func() (float64, bool) { cnt++; return 1, true }
			reg.RegisterGauge("late", probe)
			time.Sleep(20 * time.Millisecond)
			mu.Lock()
			late = cnt + before
			mu.Unlock()
			w.write(J{"ev": "StopRace", "trace": 200000 + k, "returnedwhilepolling": whilePolling, "late": late, "returnedafter": after, "kind": kind, "variant": variant})
			k++
		}
	}
}
