//go:build verif

package harness

import (
	"context"
	"fmt"
	"path/filepath"
	"sync"
	"sync/atomic"
	"testing"
	"time"

	"github.com/platinummonkey/go-concurrency-limits/core"
	"github.com/platinummonkey/go-concurrency-limits/limiter"
	"github.com/platinummonkey/go-concurrency-limits/strategy"
)

// parkingStrategy wraps a real strategy; the tokens it hands out park their Release at a point the test controls.
type parkingStrategy struct {
	core.Strategy
	mu     sync.Mutex
	armed  bool
	parked chan struct{}
	resume chan struct{}
}

type parkingToken struct {
	core.StrategyToken
	s *parkingStrategy
}

func (p *parkingStrategy) TryAcquire(ctx context.Context) (core.StrategyToken, bool) {
	t, ok := p.Strategy.TryAcquire(ctx)
	if !ok || t == nil {
		return t, ok
	}
	return &parkingToken{t, p}, ok
}

func (t *parkingToken) Release() {
	t.s.mu.Lock()
	first := t.s.armed
	t.s.armed = false
	t.s.mu.Unlock()
	if first {
		close(t.s.parked)
		<-t.s.resume
	}
	t.StrategyToken.Release()
}

// TestCompletionOverlap runs, in real time, an Acquire that overlaps a completion of another token of the same
// DefaultLimiter - completions do not take the limiter's lock, so this is an interleaving the unchanged tree allows:
//
//	(a) the acquirer is parked between the simple strategy's limit check and its increment while a holder completes:
//	    with room before and more room after, it must be granted (C01: never refused with room);
//	(b) a completion is parked just before it gives its strategy token back while another caller acquires and everybody
//	    completes: once quiet, the limiter's in-flight gauge and the strategy count are both zero (C02).
func TestCompletionOverlap(t *testing.T) {
	w := newNdWriter(t, filepath.Join(outDir(t), "overlap_trace.ndjson"))
	defer w.close()
	trace := 0
	obsOf := func(names []string, status map[string]string, busy, gauge int) J {
		procs, kids := J{}, J{}
		for _, n := range names {
			procs[n] = status[n]
			kids[n] = false
		}
		return J{"t": 0, "busy": busy, "gauge": gauge, "q": -1, "procs": procs, "kids": kids}
	}
	outcomes := []string{"success", "ignore", "dropped"}
	complete := func(l core.Listener, o string) {
		switch o {
		case "ignore":
			l.OnIgnore()
		case "dropped":
			l.OnDropped()
		default:
			l.OnSuccess()
		}
	}
	// (a)
	for lim := 2; lim <= 3; lim++ {
		for oi, o := range outcomes {
			dl, _, err := newDelegate(lim, false)
			if err != nil {
				t.Fatal(err)
			}
			names := []string{"p1"}
			for i := 0; i < lim-1; i++ {
				names = append(names, fmt.Sprintf("h%d", i))
			}
			status := map[string]string{}
			for _, n := range names {
				status[n] = "idle"
			}
			cfg := wrapCfg{Kind: "default", Ctor: "release-during-acquire/" + o, Limit: lim, Procs: names, Blackbox: true}
			w.write(J{"ev": "Reset", "trace": trace, "cfg": cfg, "obs": obsOf(names, status, -1, -1)})
			i := 0
			step := func(s schedStep, evs []J) {
				i++
				w.write(J{"ev": "Step", "trace": trace, "i": i, "step": s, "evs": evs, "obs": obsOf(names, status, -1, -1)})
			}
			held := map[string]core.Listener{}
			for _, n := range names[1:] {
				l, ok := dl.Acquire(context.Background())
				status[n] = map[bool]string{true: "granted", false: "refused"}[ok]
				held[n] = l
				step(schedStep{A: "start", P: n, Call: "acquire"}, []J{{"k": "ret", "p": n, "ok": ok, "nil": l == nil, "t": 0}})
			}
			parked, resume := make(chan struct{}), make(chan struct{})
			var once sync.Once
			strategy.VerifPoint = func(point string) {
				if point == "simple.afterCheck" {
					once.Do(func() { close(parked); <-resume })
				}
			}
			limiter.VerifPoint = nil
			type ret struct {
				l  core.Listener
				ok bool
			}
			rc := make(chan ret, 1)
			go func() { l, ok := dl.Acquire(context.Background()); rc <- ret{l, ok} }()
			select {
			case <-parked:
			case <-time.After(2 * time.Second):
				t.Fatal("the acquirer never reached the strategy's check")
			}
			status["p1"] = "gate:simple.afterCheck"
			step(schedStep{A: "start", P: "p1", Call: "acquire"}, []J{})
			// a holder completes meanwhile (not behind the limiter's lock)
			done := make(chan struct{})
			go func() { complete(held["h0"], outcomes[oi]); close(done) }()
			select {
			case <-done:
				status["h0"] = "released"
				step(schedStep{A: "start", P: "h0", Call: "release", Outcome: o}, []J{})
			case <-time.After(50 * time.Millisecond):
				// the completion waits for the acquirer on this tree: nothing overlaps, let both go
			}
			close(resume)
			r := <-rc
			<-done
			strategy.VerifPoint = nil
			status["p1"] = map[bool]string{true: "granted", false: "refused"}[r.ok]
			step(schedStep{A: "pass", P: "p1", Gate: "simple.afterCheck"}, []J{{"k": "ret", "p": "p1", "ok": r.ok, "nil": r.l == nil, "t": 0}})
			w.write(J{"ev": "End", "trace": trace, "i": i + 1, "obs": obsOf(names, status, -1, -1)})
			trace++
		}
	}
	// (b)
	for _, precise := range []bool{false, true} {
		for _, o := range outcomes {
			var inner core.Strategy
			var busyOf func() int
			if precise {
				st := strategy.NewPreciseStrategy(3)
				inner, busyOf = st, st.GetBusyCount
			} else {
				st := strategy.NewSimpleStrategy(3)
				inner, busyOf = st, st.GetBusyCount
			}
			ps := &parkingStrategy{Strategy: inner, parked: make(chan struct{}), resume: make(chan struct{})}
			dl, err := limiter.NewDefaultLimiter(&ScriptedLimit{est: 3}, 1, 1, 0, 10, ps, nil, core.EmptyMetricRegistryInstance)
			if err != nil {
				t.Fatal(err)
			}
			names := []string{"a", "b"}
			status := map[string]string{"a": "idle", "b": "idle"}
			cfg := wrapCfg{Kind: "default", Ctor: fmt.Sprintf("acquire-during-completion/%s/precise=%v", o, precise), Limit: 3, Procs: names}
			read := func() J { return obsOf(names, status, busyOf(), int(dl.VerifInFlight())) }
			w.write(J{"ev": "Reset", "trace": trace, "cfg": cfg, "obs": read()})
			i := 0
			step := func(s schedStep, evs []J) {
				i++
				w.write(J{"ev": "Step", "trace": trace, "i": i, "step": s, "evs": evs, "obs": read()})
			}
			la, ok := dl.Acquire(context.Background())
			if !ok {
				t.Fatal("first acquire refused")
			}
			status["a"] = "granted"
			step(schedStep{A: "start", P: "a", Call: "acquire"}, []J{{"k": "att", "by": "a", "for": "a", "ok": true, "nil": false}, {"k": "ret", "p": "a", "ok": true, "nil": false, "t": 0}})
			ps.mu.Lock()
			ps.armed = true
			ps.mu.Unlock()
			doneA := make(chan struct{})
			go func() { complete(la, o); close(doneA) }()
			select {
			case <-ps.parked:
			case <-time.After(2 * time.Second):
				t.Fatal("the completion never reached the strategy token")
			}
			// b acquires while a's completion is between the limiter's gauge and the strategy's count
			lb, okb := dl.Acquire(context.Background())
			close(ps.resume)
			<-doneA
			status["a"] = "released"
			status["b"] = map[bool]string{true: "granted", false: "refused"}[okb]
			step(schedStep{A: "start", P: "b", Call: "acquire"}, []J{{"k": "rel", "by": "a", "for": "a", "o": o, "n": 1}, {"k": "att", "by": "b", "for": "b", "ok": okb, "nil": lb == nil}, {"k": "ret", "p": "b", "ok": okb, "nil": lb == nil, "t": 0}})
			if okb {
				complete(lb, "success")
				status["b"] = "released"
				step(schedStep{A: "start", P: "b", Call: "release", Outcome: "success"}, []J{{"k": "rel", "by": "b", "for": "b", "o": "success", "n": 1}})
			}
			w.write(J{"ev": "End", "trace": trace, "i": i + 1, "obs": read()})
			trace++
		}
	}
	// (c) the simple strategy used directly (no limiter in front of it): two TryAcquire calls overlap - the first parked
	// between its check and its increment while the second takes the last unit. Used this way the strategy does not promise
	// the gate (the contract's limit is set out of reach: only conservation is judged), but whoever is refused holds
	// nothing and the count is the tokens out (C02).
	for _, lim := range []int{1, 2} {
		st := strategy.NewSimpleStrategy(lim)
		names := []string{"a", "b", "h"}
		status := map[string]string{"a": "idle", "b": "idle", "h": "idle"}
		cfg := wrapCfg{Kind: "default", Ctor: fmt.Sprintf("simple-direct/limit=%d", lim), Limit: 99, Procs: names, Blackbox: true}
		read := func() J { return obsOf(names, status, st.GetBusyCount(), -1) }
		w.write(J{"ev": "Reset", "trace": trace, "cfg": cfg, "obs": read()})
		i := 0
		step := func(s schedStep, evs []J) {
			i++
			w.write(J{"ev": "Step", "trace": trace, "i": i, "step": s, "evs": evs, "obs": read()})
		}
		var held []core.StrategyToken
		if lim == 2 {
			tk, ok := st.TryAcquire(context.Background())
			status["h"] = map[bool]string{true: "granted", false: "refused"}[ok]
			step(schedStep{A: "start", P: "h", Call: "acquire"}, []J{{"k": "ret", "p": "h", "ok": ok, "nil": !ok, "t": 0}})
			if ok {
				held = append(held, tk)
			}
		}
		parked, resume := make(chan struct{}), make(chan struct{})
		var first int32
		strategy.VerifPoint = func(point string) {
			if point == "simple.afterCheck" && atomic.CompareAndSwapInt32(&first, 0, 1) { // only the first caller parks
				close(parked)
				<-resume
			}
		}
		type ret struct {
			t  core.StrategyToken
			ok bool
		}
		ra := make(chan ret, 1)
		go func() { tk, ok := st.TryAcquire(context.Background()); ra <- ret{tk, ok} }()
		select {
		case <-parked:
		case <-time.After(2 * time.Second):
			t.Fatal("the first caller never reached the strategy's check")
		}
		status["a"] = "gate:simple.afterCheck"
		step(schedStep{A: "start", P: "a", Call: "acquire"}, []J{})
		tb, okb := st.TryAcquire(context.Background())
		okb = okb && tb != nil && tb.IsAcquired()
		status["b"] = map[bool]string{true: "granted", false: "refused"}[okb]
		step(schedStep{A: "start", P: "b", Call: "acquire"}, []J{{"k": "ret", "p": "b", "ok": okb, "nil": !okb, "t": 0}})
		close(resume)
		a := <-ra
		strategy.VerifPoint = nil
		oka := a.ok && a.t != nil && a.t.IsAcquired()
		status["a"] = map[bool]string{true: "granted", false: "refused"}[oka]
		step(schedStep{A: "pass", P: "a", Gate: "simple.afterCheck"}, []J{{"k": "ret", "p": "a", "ok": oka, "nil": !oka, "t": 0}})
		for _, x := range []struct {
			n  string
			ok bool
			t  core.StrategyToken
		}{{"a", oka, a.t}, {"b", okb, tb}} {
			if x.ok {
				x.t.Release()
				status[x.n] = "released"
				step(schedStep{A: "start", P: x.n, Call: "release", Outcome: "success"}, []J{})
			}
		}
		for _, tk := range held {
			tk.Release()
			status["h"] = "released"
			step(schedStep{A: "start", P: "h", Call: "release", Outcome: "success"}, []J{})
		}
		w.write(J{"ev": "End", "trace": trace, "i": i + 1, "obs": read()})
		trace++
	}
	writeJSON(t, filepath.Join(outDir(t), "overlap.json"), J{"scenarios": trace})
}
