-------------------------------- MODULE PartitionLin --------------------------------
(* Linearisability of concurrent histories of the partitioned strategies against the          *)
(* sequential contract spec/Partition.tla (the concurrent half of C03 / C02 / C05): every call *)
(* of free-running goroutines (TryAcquire with a key, release of a token, SetLimit, adding and *)
(* removing partitions) is logged                                                               *)
(* with begin / end events numbered by one atomic counter; TLC searches for linearisation       *)
(* points (Lin steps) such that each call returns what Apply returns at its point, and the      *)
(* state read back once everything is quiet equals the contract's final state.                  *)
EXTENDS Partition, TLC, Json, IOUtils

Log == ndJsonDeserialize(IOEnv.VERIF_TRACE)

VARIABLES l, cfg, s, open, granted
vars == <<l, cfg, s, open, granted>>

MaxI(a, b) == IF a > b THEN a ELSE b
Init == l = 1 /\ cfg = [kind |-> "none"] /\ s = [limit |-> 0] /\ open = <<>> /\ granted = <<>> /\ TLCSet(1, 0)
Ids == DOMAIN open

ReadReset ==
  /\ l <= Len(Log) /\ Log[l].t = "reset" /\ Ids = {}
  /\ l' = l + 1 /\ cfg' = Log[l].cfg /\ s' = InitState(Log[l].cfg) /\ open' = <<>> /\ granted' = <<>>

ReadBegin ==
  /\ l <= Len(Log) /\ Log[l].t = "b"
  /\ l' = l + 1
  /\ open' = [i \in Ids \cup {Log[l].id} |-> IF i = Log[l].id THEN [op |-> Log[l].op, lin |-> FALSE, ok |-> FALSE, res |-> [ok |-> FALSE]] ELSE open[i]]
  /\ UNCHANGED <<cfg, s, granted>>

Lin(i) ==
  /\ ~open[i].lin
  /\ LET o == open[i].op IN
     IF o.op = "rel"
     THEN \* releases the token granted to acquire number o.of
          /\ o.of \in DOMAIN granted
          /\ s' = Release(cfg, s, granted[o.of]).st
          /\ granted' = [j \in DOMAIN granted \ {o.of} |-> granted[j]]
          /\ open' = [open EXCEPT ![i].lin = TRUE, ![i].ok = TRUE]
     ELSE LET r == Apply(cfg, s, o) IN
          /\ s' = r.st
          /\ open' = [open EXCEPT ![i].lin = TRUE, ![i].ok = r.res.ok, ![i].res = r.res]
          /\ granted' = IF o.op = "try" /\ r.res.ok
                        THEN [j \in DOMAIN granted \cup {i} |-> IF j = i THEN r.res.bin ELSE granted[j]]
                        ELSE granted
  /\ UNCHANGED <<l, cfg>>

ReadEnd ==
  /\ l <= Len(Log) /\ Log[l].t = "e"
  /\ LET i == Log[l].id IN
     /\ i \in Ids /\ open[i].lin /\ open[i].ok = Log[l].ok
     \* a removal also reports what it removed and how many tokens of it were out at that instant
     /\ open[i].op.op = "rem" => Log[l].res = open[i].res
     /\ open' = [j \in Ids \ {i} |-> open[j]]
  /\ l' = l + 1
  /\ UNCHANGED <<cfg, s, granted>>

ReadFinal ==   \* everything is quiet: the state read back must be the contract's
  /\ l <= Len(Log) /\ Log[l].t = "final" /\ Ids = {}
  /\ Log[l].obs.limit = s.limit /\ Log[l].obs.busy = s.busy /\ Log[l].obs.ob = s.ob
  \* (where the history logged them) the share of every registered partition is the one the contract fixes
  /\ "bl" \in DOMAIN Log[l].obs => Log[l].obs.bl = [o \in Range(s.reg) |-> s.ol[o]]
  /\ BinsSumToTotal(cfg, s) /\ SharesCurrent(cfg, s)
  /\ l' = l + 1 /\ UNCHANGED <<cfg, s, open, granted>>

Next == ReadReset \/ ReadBegin \/ ReadEnd \/ ReadFinal \/ \E i \in Ids : Lin(i)
Mark == TLCSet(1, MaxI(TLCGet(1), l - 1))
Report == PrintT(<<"MARK", TLCGet(1)>>)
=================================================================================
