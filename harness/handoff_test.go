//go:build verif

package harness

import (
	"context"
	"fmt"
	"path/filepath"
	"runtime"
	"sync"
	"sync/atomic"
	"testing"
	"time"

	"github.com/platinummonkey/go-concurrency-limits/core"
	"github.com/platinummonkey/go-concurrency-limits/limiter"
)

// TestHandoffGiveUpRace runs, in real time (no bubble), the schedules the bubble cannot run: a waiter
// gives up (its context is cancelled) while a completion's unblock() is parked in the middle of the
// hand-off to that very waiter and holds the limiter mutex. On this tree the waiter then blocks on that
// mutex until the hand-off is done (a goroutine blocked on a mutex is not durably blocked, so
// synctest.Wait() could never return), evicts itself and takes the listener that was handed over.
// The parked points are the unblocker's delegate attempt (entry: token not yet taken; exit: token
// taken on the waiter's behalf). Every step is logged for the contract spec/WrapperTrace.tla.
func TestHandoffGiveUpRace(t *testing.T) {
	w := newNdWriter(t, filepath.Join(outDir(t), "handoff_trace.ndjson"))
	defer w.close()
	trace := 0
	for rep := 0; rep < envInt("VERIF_N", 3); rep++ {
		for _, ord := range []string{"fifo", "lifo"} {
			for _, point := range []string{"acq.enter", "acq.exit"} {
				for _, waiters := range []int{1, 2} {
					names := append(append([]string{}, []string{"h", "w1", "w2"}[:1+waiters]...), "x", "n1", "n2")
					first := names[:1+waiters]
					c := newController() // gates enabled later, only for the unblocker
					s := newScenario(t, c, names)
					s.settle = func() { s.settleRealTime(3*time.Millisecond, 300*time.Millisecond) }
					c.emit = s.ev
					limiter.VerifPoint = nil
					dl, busy, err := newDelegate(1, false)
					if err != nil {
						t.Fatal(err)
					}
					gl := &GatedLimiter{c: c, inner: dl}
					reg := newRecordingRegistry()
					o := limiter.OrderingFIFO
					if ord == "lifo" {
						o = limiter.OrderingLIFO
					}
					s.lim = limiter.NewQueueBlockingLimiterFromConfig(gl, limiter.QueueLimiterConfig{Ordering: o, MaxBacklogSize: 4, MaxBacklogTimeout: -1, BacklogEvictDoneCtx: true, MetricRegistry: reg})
					s.extra = func() J {
						q, _ := reg.GaugeByID(core.MetricQueueSize)
						return J{"busy": busy(), "gauge": int(dl.VerifInFlight()), "q": q, "t": 0}
					}
					cfg := wrapCfg{Kind: "queue", Ctor: "handoff-race/" + point, Limit: 1, QMax: 4, QTimeout: 0, EvictCtx: true, Ordering: ord, Expect: ord, Procs: names}
					w.write(J{"ev": "Reset", "trace": trace, "cfg": cfg, "obs": s.observe()})
					i := 0
					do := func(st schedStep) bool {
						if err := s.apply(st); err != nil {
							t.Logf("trace %d: %v", trace, err)
							return false
						}
						i++
						w.write(J{"ev": "Step", "trace": trace, "i": i, "step": st, "evs": s.events(), "obs": s.observe()})
						return true
					}
					do(schedStep{A: "start", P: "h", Call: "acquire"})
					for _, n := range first[1:] {
						do(schedStep{A: "start", P: n, Call: "acquire"})
					}
					// from now on the delegate attempt made by unblock parks
					c.mu.Lock()
					c.enabled[point] = true
					c.mu.Unlock()
					do(schedStep{A: "start", P: "h", Call: "release", Outcome: []string{"success", "ignore", "dropped"}[trace%3]})
					// the waiter being served gives up while the unblocker holds the mutex
					target := "w1"
					if ord == "lifo" && waiters == 2 {
						target = "w2"
					}
					do(schedStep{A: "cancel", P: target})
					time.Sleep(2 * time.Millisecond) // let the waiter reach the mutex
					c.mu.Lock()
					c.enabled = map[string]bool{}
					c.mu.Unlock()
					do(schedStep{A: "pass", P: "h", Gate: point})
					// whoever holds a token now completes it; the rest is cancelled
					for round := 0; round < 4; round++ {
						progressed := false
						for _, n := range names {
							if s.procs[n].state == "granted" {
								do(schedStep{A: "start", P: n, Call: "release", Outcome: "success"})
								progressed = true
							}
						}
						if !progressed {
							break
						}
					}
					for _, n := range first[1:] {
						if s.procs[n].state == "calling" {
							do(schedStep{A: "cancel", P: n})
						}
					}
					// afterwards the limiter is used again: a holder, two new waiters one after the other, a release - the
					// backlog must still be the callers waiting, served in the configured order
					do(schedStep{A: "start", P: "x", Call: "acquire"})
					do(schedStep{A: "start", P: "n1", Call: "acquire"})
					do(schedStep{A: "start", P: "n2", Call: "acquire"})
					for round := 0; round < 4; round++ {
						progressed := false
						for _, n := range []string{"x", "n1", "n2"} {
							if s.procs[n].state == "granted" {
								do(schedStep{A: "start", P: n, Call: "release", Outcome: "success"})
								progressed = true
							}
						}
						if !progressed {
							break
						}
					}
					w.write(J{"ev": "End", "trace": trace, "i": i + 1, "obs": s.observe()})
					for _, n := range names {
						s.procs[n].cancel()
					}
					trace++
				}
			}
		}
	}
	_ = fmt.Sprint
}

// TestReleaseOrder parks a completion BEFORE it gives the token back to the delegate (gate rel.enter), with a caller
// asleep, for the blocking and deadline limiters and all three outcomes. On this tree nothing has happened yet at
// that point - the wrapper signals only after the delegate has the token back - so the sleeper sleeps on and is
// served when the completion is let go. A wrapper that signals first wakes the sleeper too early: it finds no
// capacity, goes back to sleep, and nobody tells it when the token is finally free (C10).
func TestReleaseOrder(t *testing.T) {
	w := newNdWriter(t, filepath.Join(outDir(t), "release_trace.ndjson"))
	defer w.close()
	trace := 0
	for rep := 0; rep < envInt("VERIF_N", 2); rep++ {
		for _, kind := range []string{"blocking", "deadline"} {
			for _, outcome := range []string{"success", "ignore", "dropped"} {
				names := []string{"h", "w1", "w2"}
				c := newController()
				s := newScenario(t, c, names)
				s.settle = func() { s.settleRealTime(3*time.Millisecond, 300*time.Millisecond) }
				c.emit = s.ev
				limiter.VerifPoint = nil
				dl, busy, err := newDelegate(1, rep%2 == 1)
				if err != nil {
					t.Fatal(err)
				}
				gl := &GatedLimiter{c: c, inner: dl}
				cfg := wrapCfg{Kind: kind, Ctor: "release-order/" + outcome, Limit: 1, Procs: names}
				if kind == "deadline" {
					s.lim = limiter.NewDeadlineLimiter(gl, time.Now().Add(time.Hour), nil)
					cfg.Deadline = 1000000
				} else {
					s.lim = limiter.NewBlockingLimiter(gl, 0, nil)
				}
				s.extra = func() J { return J{"busy": busy(), "gauge": int(dl.VerifInFlight()), "t": 0} }
				w.write(J{"ev": "Reset", "trace": trace, "cfg": cfg, "obs": s.observe()})
				i := 0
				do := func(st schedStep) bool {
					if err := s.apply(st); err != nil {
						t.Logf("trace %d: %v", trace, err)
						return false
					}
					i++
					w.write(J{"ev": "Step", "trace": trace, "i": i, "step": st, "evs": s.events(), "obs": s.observe()})
					return true
				}
				do(schedStep{A: "start", P: "h", Call: "acquire"})
				do(schedStep{A: "start", P: "w1", Call: "acquire"})
				if rep%2 == 1 {
					do(schedStep{A: "start", P: "w2", Call: "acquire"})
				}
				c.mu.Lock()
				c.enabled["rel.enter"] = true
				c.mu.Unlock()
				do(schedStep{A: "start", P: "h", Call: "release", Outcome: outcome})
				time.Sleep(3 * time.Millisecond) // anything the wrapper did ahead of the completion takes effect now
				c.mu.Lock()
				c.enabled = map[string]bool{}
				c.mu.Unlock()
				do(schedStep{A: "pass", P: "h", Gate: "rel.enter"})
				for round := 0; round < 4; round++ {
					progressed := false
					for _, n := range names {
						if s.procs[n].state == "granted" {
							do(schedStep{A: "start", P: n, Call: "release", Outcome: outcome})
							progressed = true
						}
					}
					if !progressed {
						break
					}
				}
				w.write(J{"ev": "End", "trace": trace, "i": i + 1, "obs": s.observe()})
				for _, n := range names {
					s.procs[n].cancel()
				}
				trace++
			}
		}
	}
}

// TestReleaseArrival runs, in real time, an arrival against a completion in progress, for the queue (FIFO, LIFO),
// blocking and deadline limiters and all three outcomes:
//
//	(a) "at-exit": the arrival is parked right after its failed attempt on the delegate (gate acq.exit); the holder
//	    completes meanwhile (on this tree the queue limiter's unblock waits for the limiter mutex the arrival holds);
//	    once the arrival is let go it must end up served - the release must not fall between its attempt and its
//	    going to sleep (C10);
//	(b) "in-release": the completion is parked before it gives the token back (gate rel.enter); a caller arrives,
//	    finds the limit full and its context is cancelled: it returns refused although the release is still in
//	    progress (C13: cfg.promptcancel), and the token is free for the next caller afterwards.
func TestReleaseArrival(t *testing.T) {
	w := newNdWriter(t, filepath.Join(outDir(t), "relarrival_trace.ndjson"))
	defer w.close()
	trace := 0
	for rep := 0; rep < envInt("VERIF_N", 2); rep++ {
		for _, kind := range []string{"queue-fifo", "queue-lifo", "blocking", "deadline"} {
			for _, outcome := range []string{"success", "ignore", "dropped"} {
				for _, variant := range []string{"at-exit", "in-release"} {
					names := []string{"h", "a1", "a2"}
					c := newController()
					s := newScenario(t, c, names)
					s.settle = func() { s.settleRealTime(12*time.Millisecond, 600*time.Millisecond) }
					s.noClock = true
					c.emit = s.ev
					limiter.VerifPoint = nil
					dl, busy, err := newDelegate(1, rep%2 == 1)
					if err != nil {
						t.Fatal(err)
					}
					gl := &GatedLimiter{c: c, inner: dl}
					reg := newRecordingRegistry()
					cfg := wrapCfg{Ctor: "release-arrival/" + variant + "/" + outcome, Limit: 1, Procs: names, PromptCancel: variant == "in-release"}
					s.extra = func() J { return J{"busy": busy(), "gauge": int(dl.VerifInFlight()), "t": 0} }
					switch kind {
					case "queue-fifo", "queue-lifo":
						o := limiter.OrderingFIFO
						if kind == "queue-lifo" {
							o = limiter.OrderingLIFO
						}
						s.lim = limiter.NewQueueBlockingLimiterFromConfig(gl, limiter.QueueLimiterConfig{Ordering: o, MaxBacklogSize: 4, MaxBacklogTimeout: -1, BacklogEvictDoneCtx: true, MetricRegistry: reg})
						cfg.Kind, cfg.QMax, cfg.EvictCtx, cfg.Ordering, cfg.Expect = "queue", 4, true, kind[6:], "any" // the served caller is pushed and handed the token within one step: no order to judge
						s.extra = func() J {
							q, _ := reg.GaugeByID(core.MetricQueueSize)
							return J{"busy": busy(), "gauge": int(dl.VerifInFlight()), "q": q, "t": 0}
						}
					case "deadline":
						s.lim = limiter.NewDeadlineLimiter(gl, time.Now().Add(time.Hour), nil)
						cfg.Kind, cfg.Deadline = "deadline", 1000000
					default:
						s.lim = limiter.NewBlockingLimiter(gl, 0, nil)
						cfg.Kind = "blocking"
					}
					w.write(J{"ev": "Reset", "trace": trace, "cfg": cfg, "obs": s.observe()})
					i := 0
					do := func(st schedStep) bool {
						if err := s.apply(st); err != nil {
							t.Logf("trace %d: %v", trace, err)
							return false
						}
						i++
						w.write(J{"ev": "Step", "trace": trace, "i": i, "step": st, "evs": s.events(), "obs": s.observe()})
						return true
					}
					enable := func(points ...string) {
						c.mu.Lock()
						c.enabled = map[string]bool{}
						for _, p := range points {
							c.enabled[p] = true
						}
						c.mu.Unlock()
					}
					do(schedStep{A: "start", P: "h", Call: "acquire"})
					if variant == "at-exit" {
						enable("acq.exit")
						do(schedStep{A: "start", P: "a1", Call: "acquire"})
						enable()
						do(schedStep{A: "start", P: "h", Call: "release", Outcome: outcome})
						do(schedStep{A: "pass", P: "a1", Gate: "acq.exit"})
					} else {
						enable("rel.enter")
						do(schedStep{A: "start", P: "h", Call: "release", Outcome: outcome})
						enable()
						do(schedStep{A: "start", P: "a1", Call: "acquire"})
						do(schedStep{A: "cancel", P: "a1"})
						do(schedStep{A: "pass", P: "h", Gate: "rel.enter"})
						do(schedStep{A: "start", P: "a2", Call: "acquire"})
					}
					for round := 0; round < 4; round++ {
						progressed := false
						for _, n := range names {
							if s.procs[n].state == "granted" {
								do(schedStep{A: "start", P: n, Call: "release", Outcome: outcome})
								progressed = true
							}
						}
						if !progressed {
							break
						}
					}
					w.write(J{"ev": "End", "trace": trace, "i": i + 1, "obs": s.observe()})
					c.disableAll()
					c.passAll()
					for _, n := range names {
						s.procs[n].cancel()
					}
					trace++
				}
			}
		}
	}
}

// TestUnblockRace runs, in real time, a second completion while the first completion's unblock() is parked
// (holding the limiter mutex) at its k-th gate: on this tree the second completion's unblock blocks on the mutex
// and serves the next waiter afterwards; a change that lets it skip or overtake must not strand a waiter with
// capacity free (C10 / C19), lose a token (C02) or serve out of order (C11).
func TestUnblockRace(t *testing.T) {
	w := newNdWriter(t, filepath.Join(outDir(t), "unblock_trace.ndjson"))
	defer w.close()
	trace := 0
	for rep := 0; rep < envInt("VERIF_N", 2); rep++ {
		for _, ord := range []string{"fifo", "lifo"} {
			for k := 1; k <= 5; k++ {
				names := []string{"h1", "h2", "w1", "w2"}
				c := newController()
				s := newScenario(t, c, names)
				s.settle = func() { s.settleRealTime(3*time.Millisecond, 300*time.Millisecond) }
				c.emit = s.ev
				limiter.VerifPoint = nil
				dl, busy, err := newDelegate(2, rep%2 == 1)
				if err != nil {
					t.Fatal(err)
				}
				gl := &GatedLimiter{c: c, inner: dl}
				reg := newRecordingRegistry()
				o := limiter.OrderingFIFO
				if ord == "lifo" {
					o = limiter.OrderingLIFO
				}
				s.lim = limiter.NewQueueBlockingLimiterFromConfig(gl, limiter.QueueLimiterConfig{Ordering: o, MaxBacklogSize: 4, MaxBacklogTimeout: -1, MetricRegistry: reg})
				s.extra = func() J {
					q, _ := reg.GaugeByID(core.MetricQueueSize)
					return J{"busy": busy(), "gauge": int(dl.VerifInFlight()), "q": q, "t": 0}
				}
				cfg := wrapCfg{Kind: "queue", Ctor: fmt.Sprintf("unblock-race/k=%d", k), Limit: 2, QMax: 4, QTimeout: 0, Ordering: ord, Expect: ord, Procs: names}
				w.write(J{"ev": "Reset", "trace": trace, "cfg": cfg, "obs": s.observe()})
				i := 0
				do := func(st schedStep) bool {
					if err := s.apply(st); err != nil {
						return false
					}
					i++
					w.write(J{"ev": "Step", "trace": trace, "i": i, "step": st, "evs": s.events(), "obs": s.observe()})
					return true
				}
				for _, n := range names {
					do(schedStep{A: "start", P: n, Call: "acquire"})
				}
				c.mu.Lock()
				c.enabled["acq.enter"], c.enabled["acq.exit"] = true, true
				c.mu.Unlock()
				do(schedStep{A: "start", P: "h1", Call: "release", Outcome: "success"})
				for v := 1; v < k; v++ {
					pm := c.parkedMap()
					if g, ok := pm["h1"]; ok {
						do(schedStep{A: "pass", P: "h1", Gate: g})
					}
				}
				// the second completion arrives while the first one is parked inside unblock
				do(schedStep{A: "start", P: "h2", Call: "release", Outcome: "success"})
				time.Sleep(2 * time.Millisecond)
				for n := 0; n < 20; n++ {
					pm := c.parkedMap()
					if len(pm) == 0 {
						break
					}
					keys := sortedKeys(pm)
					// the first completion first (it holds the mutex), then whoever is parked
					key := keys[0]
					if _, ok := pm["h1"]; ok {
						key = "h1"
					}
					do(schedStep{A: "pass", P: key, Gate: pm[key]})
				}
				c.mu.Lock()
				c.enabled = map[string]bool{}
				c.mu.Unlock()
				for round := 0; round < 4; round++ {
					progressed := false
					for _, n := range names {
						if s.procs[n].state == "granted" {
							do(schedStep{A: "start", P: n, Call: "release", Outcome: "ignore"})
							progressed = true
						}
					}
					if !progressed {
						break
					}
				}
				w.write(J{"ev": "End", "trace": trace, "i": i + 1, "obs": s.observe()})
				for _, n := range names {
					s.procs[n].cancel()
				}
				trace++
			}
		}
	}
}

// TestCancelArrival runs, in real time, an arrival at a full backlog while one of the queued callers is giving up:
// the backlog is filled by callers that arrive one after the other (each asleep before the next), a further caller
// is parked inside its attempt on the delegate (holding the limiter mutex on this tree), a queued caller's context
// is cancelled (its give-up waits for the mutex: it is still blocked, still in the backlog) and the arrival is let
// go: it found the backlog at its maximum of blocked callers and is refused (C12; cfg.strictfull).
func TestCancelArrival(t *testing.T) {
	w := newNdWriter(t, filepath.Join(outDir(t), "cancelarrival_trace.ndjson"))
	defer w.close()
	trace := 0
	for rep := 0; rep < envInt("VERIF_N", 2); rep++ {
		for _, qmax := range []int{1, 2, 3} {
			for _, point := range []string{"acq.enter", "acq.exit"} {
				for _, ord := range []string{"fifo", "lifo"} {
					names := []string{"h"}
					for i := 1; i <= qmax; i++ {
						names = append(names, fmt.Sprintf("w%d", i))
					}
					names = append(names, "a1", "a2")
					c := newController()
					s := newScenario(t, c, names)
					s.settle = func() { s.settleRealTime(12*time.Millisecond, 600*time.Millisecond) }
					s.noClock = true
					c.emit = s.ev
					limiter.VerifPoint = nil
					dl, busy, err := newDelegate(1, rep%2 == 1)
					if err != nil {
						t.Fatal(err)
					}
					gl := &GatedLimiter{c: c, inner: dl}
					reg := newRecordingRegistry()
					o := limiter.OrderingFIFO
					if ord == "lifo" {
						o = limiter.OrderingLIFO
					}
					s.lim = limiter.NewQueueBlockingLimiterFromConfig(gl, limiter.QueueLimiterConfig{Ordering: o, MaxBacklogSize: qmax, MaxBacklogTimeout: -1, BacklogEvictDoneCtx: true, MetricRegistry: reg})
					s.extra = func() J {
						q, _ := reg.GaugeByID(core.MetricQueueSize)
						return J{"busy": busy(), "gauge": int(dl.VerifInFlight()), "q": q, "t": 0}
					}
					cfg := wrapCfg{Kind: "queue", Ctor: "cancel-arrival/" + point, Limit: 1, QMax: qmax, QTimeout: 0, EvictCtx: true, Ordering: ord, Expect: ord, Procs: names, StrictFull: true}
					w.write(J{"ev": "Reset", "trace": trace, "cfg": cfg, "obs": s.observe()})
					i := 0
					do := func(st schedStep) bool {
						if err := s.apply(st); err != nil {
							t.Logf("trace %d: %v", trace, err)
							return false
						}
						i++
						w.write(J{"ev": "Step", "trace": trace, "i": i, "step": st, "evs": s.events(), "obs": s.observe()})
						return true
					}
					for _, n := range names[:1+qmax] {
						do(schedStep{A: "start", P: n, Call: "acquire"})
					}
					c.mu.Lock()
					c.enabled[point] = true
					c.mu.Unlock()
					do(schedStep{A: "start", P: "a1", Call: "acquire"})
					c.mu.Lock()
					c.enabled = map[string]bool{}
					c.mu.Unlock()
					// one, or (every other repetition) all of the queued callers give up
					ncancel := 1
					if rep%2 == 1 {
						ncancel = qmax
					}
					for k := 1; k <= ncancel; k++ {
						do(schedStep{A: "cancel", P: fmt.Sprintf("w%d", k)})
					}
					do(schedStep{A: "pass", P: "a1", Gate: point})
					do(schedStep{A: "start", P: "a2", Call: "acquire"}) // the places are free now
					for round := 0; round < 5; round++ {
						progressed := false
						for _, n := range names {
							if s.procs[n].state == "granted" {
								do(schedStep{A: "start", P: n, Call: "release", Outcome: "success"})
								progressed = true
							}
						}
						if !progressed {
							break
						}
					}
					for _, n := range names[1:] {
						if s.procs[n].state == "calling" {
							do(schedStep{A: "cancel", P: n})
						}
					}
					w.write(J{"ev": "End", "trace": trace, "i": i + 1, "obs": s.observe()})
					c.disableAll()
					c.passAll()
					for _, n := range names {
						s.procs[n].cancel()
					}
					trace++
				}
			}
		}
	}
	for _, ord := range []string{"fifo", "lifo"} {
		handoffProbe(t, w, trace, ord)
		trace++
	}
}

// TestSlowArrival runs, in real time, an arrival whose attempt on the delegate takes longer than the backlog timeout (it
// is parked inside the delegate for 50 ms, the timeout is 30 ms): once it is in the backlog it still waits no longer
// than the backlog timeout (C13: the bound counts from when the caller starts waiting; a wait without any timer is the
// worst reading of "the budget is used up").
func TestSlowArrival(t *testing.T) {
	w := newNdWriter(t, filepath.Join(outDir(t), "slowarrival_trace.ndjson"))
	defer w.close()
	trace := 0
	for rep := 0; rep < envInt("VERIF_N", 2); rep++ {
		for _, ord := range []string{"fifo", "lifo"} {
			for _, point := range []string{"acq.enter", "acq.exit"} {
				names := []string{"h", "a1"}
				c := newController()
				s := newScenario(t, c, names)
				s.settle = func() { s.settleRealTime(5*time.Millisecond, 300*time.Millisecond) }
				c.emit = s.ev
				limiter.VerifPoint = nil
				dl, busy, err := newDelegate(1, rep%2 == 1)
				if err != nil {
					t.Fatal(err)
				}
				gl := &GatedLimiter{c: c, inner: dl}
				reg := newRecordingRegistry()
				o := limiter.OrderingFIFO
				if ord == "lifo" {
					o = limiter.OrderingLIFO
				}
				s.lim = limiter.NewQueueBlockingLimiterFromConfig(gl, limiter.QueueLimiterConfig{Ordering: o, MaxBacklogSize: 4, MaxBacklogTimeout: 30 * time.Millisecond, MetricRegistry: reg})
				s.extra = func() J {
					q, _ := reg.GaugeByID(core.MetricQueueSize)
					return J{"busy": busy(), "gauge": int(dl.VerifInFlight()), "q": q}
				}
				cfg := wrapCfg{Kind: "queue", Ctor: "slow-arrival/" + point, Limit: 1, QMax: 4, QTimeout: 30, Ordering: ord, Expect: "any", Procs: names}
				w.write(J{"ev": "Reset", "trace": trace, "cfg": cfg, "obs": s.observe()})
				i := 0
				do := func(st schedStep) bool {
					if err := s.apply(st); err != nil {
						t.Logf("trace %d: %v", trace, err)
						return false
					}
					i++
					w.write(J{"ev": "Step", "trace": trace, "i": i, "step": st, "evs": s.events(), "obs": s.observe()})
					return true
				}
				do(schedStep{A: "start", P: "h", Call: "acquire"})
				c.mu.Lock()
				c.enabled[point] = true
				c.mu.Unlock()
				do(schedStep{A: "start", P: "a1", Call: "acquire"})
				c.mu.Lock()
				c.enabled = map[string]bool{}
				c.mu.Unlock()
				do(schedStep{A: "tick", N: 50})
				do(schedStep{A: "pass", P: "a1", Gate: point})
				do(schedStep{A: "tick", N: 60})
				do(schedStep{A: "start", P: "h", Call: "release", Outcome: "success"})
				if s.procs["a1"].state == "granted" {
					do(schedStep{A: "start", P: "a1", Call: "release", Outcome: "success"})
				}
				w.write(J{"ev": "End", "trace": trace, "i": i + 1, "obs": s.observe()})
				c.disableAll()
				c.passAll()
				for _, n := range names {
					s.procs[n].cancel()
				}
				trace++
			}
		}
	}
	// a waiter's backlog timeout fires while the holder's completion is parked between "token back at the delegate" and
	// unblock (gate rel.exit): the token is idle, nobody is being handed anything. The waiter gives up (refused, gone from
	// the backlog); whatever it does instead, once things are quiet the backlog holds exactly the callers asleep (C12).
	for rep := 0; rep < envInt("VERIF_N", 2); rep++ {
		for _, ord := range []string{"fifo", "lifo"} {
			names := []string{"h", "w1", "a2"}
			c := newController()
			s := newScenario(t, c, names)
			s.settle = func() { s.settleRealTime(5*time.Millisecond, 300*time.Millisecond) }
			c.emit = s.ev
			limiter.VerifPoint = nil
			dl, busy, err := newDelegate(1, rep%2 == 1)
			if err != nil {
				t.Fatal(err)
			}
			gl := &GatedLimiter{c: c, inner: dl}
			reg := newRecordingRegistry()
			o := limiter.OrderingFIFO
			if ord == "lifo" {
				o = limiter.OrderingLIFO
			}
			s.lim = limiter.NewQueueBlockingLimiterFromConfig(gl, limiter.QueueLimiterConfig{Ordering: o, MaxBacklogSize: 1, MaxBacklogTimeout: 30 * time.Millisecond, MetricRegistry: reg})
			s.extra = func() J {
				q, _ := reg.GaugeByID(core.MetricQueueSize)
				return J{"busy": busy(), "gauge": int(dl.VerifInFlight()), "q": q}
			}
			cfg := wrapCfg{Kind: "queue", Ctor: "timeout-in-release", Limit: 1, QMax: 1, QTimeout: 30, Ordering: ord, Expect: "any", Procs: names}
			w.write(J{"ev": "Reset", "trace": trace, "cfg": cfg, "obs": s.observe()})
			i := 0
			do := func(st schedStep) bool {
				if err := s.apply(st); err != nil {
					t.Logf("trace %d: %v", trace, err)
					return false
				}
				i++
				w.write(J{"ev": "Step", "trace": trace, "i": i, "step": st, "evs": s.events(), "obs": s.observe()})
				return true
			}
			do(schedStep{A: "start", P: "h", Call: "acquire"})
			do(schedStep{A: "start", P: "w1", Call: "acquire"})
			c.mu.Lock()
			c.enabled["rel.exit"] = true
			c.mu.Unlock()
			do(schedStep{A: "start", P: "h", Call: "release", Outcome: "success"})
			c.mu.Lock()
			c.enabled = map[string]bool{}
			c.mu.Unlock()
			do(schedStep{A: "tick", N: 50}) // w1's timeout fires meanwhile
			do(schedStep{A: "pass", P: "h", Gate: "rel.exit"})
			do(schedStep{A: "start", P: "a2", Call: "acquire"}) // the place in the backlog (of one) is free, or the token is
			do(schedStep{A: "tick", N: 45})
			for _, n := range names {
				if s.procs[n].state == "granted" {
					do(schedStep{A: "start", P: n, Call: "release", Outcome: "success"})
				}
			}
			do(schedStep{A: "tick", N: 45})
			w.write(J{"ev": "End", "trace": trace, "i": i + 1, "obs": s.observe()})
			c.disableAll()
			c.passAll()
			for _, n := range names {
				s.procs[n].cancel()
			}
			trace++
		}
	}
}

// handoffProbe: two goroutines pass one token back and forth through the backlog of a queue limiter (limit 1, nobody else),
// a few ten thousand hand-offs in real time; each reads the backlog length the moment its Acquire has returned granted.
func handoffProbe(t *testing.T, w *ndWriter, trace int, ord string) {
	dl, busy, err := newDelegate(1, false)
	if err != nil {
		t.Fatal(err)
	}
	o := limiter.OrderingFIFO
	if ord == "lifo" {
		o = limiter.OrderingLIFO
	}
	reg := newRecordingRegistry()
	ql := limiter.NewQueueBlockingLimiterFromConfig(dl, limiter.QueueLimiterConfig{Ordering: o, MaxBacklogSize: 4, MaxBacklogTimeout: 5 * time.Second, MetricRegistry: reg})
	names := []string{"p1", "p2"}
	cfg := wrapCfg{Kind: "queue", Ctor: "handoff-probe", Limit: 1, QMax: 4, QTimeout: 5000, Ordering: ord, Expect: "any", Procs: names, Blackbox: true}
	idle := J{"p1": "idle", "p2": "idle"}
	obs := J{"t": 0, "busy": -1, "gauge": -1, "q": -1, "procs": idle, "kids": J{"p1": false, "p2": false}}
	w.write(J{"ev": "Reset", "trace": trace, "cfg": cfg, "obs": obs})
	var handoffs, nonempty int64
	// the holder acquires, lets the waiter go, waits until it is queued, completes; the waiter reads the backlog the moment
	// its Acquire has returned - nobody else is calling Acquire then - completes, and lets the holder go again
	wGo, hGo := make(chan struct{}), make(chan struct{})
	const rounds = 15000
	var wg sync.WaitGroup
	wg.Add(2)
	go func() { // holder
		defer wg.Done()
		for i := 0; i < rounds; i++ {
			l, ok := ql.Acquire(context.Background())
			if !ok || l == nil {
				t.Errorf("handoff probe: holder refused")
				return
			}
			wGo <- struct{}{}
			for ql.VerifBacklogLen() == 0 {
				runtime.Gosched()
			}
			l.OnIgnore()
			<-hGo
		}
	}()
	go func() { // waiter
		defer wg.Done()
		for i := 0; i < rounds; i++ {
			<-wGo
			l, ok := ql.Acquire(context.Background())
			if ok && l != nil {
				if n := ql.VerifBacklogLen(); n != 0 {
					atomic.AddInt64(&nonempty, 1)
				}
				atomic.AddInt64(&handoffs, 1)
				l.OnIgnore()
			}
			hGo <- struct{}{}
		}
	}()
	wg.Wait()
	_ = busy
	w.write(J{"ev": "Probe", "trace": trace, "i": 1, "handoffs": handoffs, "nonempty": nonempty, "obs": obs})
}

// TestArrivalRace runs, in real time, a second arrival while the first arrival is parked between its failed
// attempt and its backlog length check + push (holding the limiter mutex on this tree, so the second one waits):
// the backlog must never hold more callers than its maximum and an arrival at a full backlog is refused (C12).
func TestArrivalRace(t *testing.T) {
	w := newNdWriter(t, filepath.Join(outDir(t), "arrival_trace.ndjson"))
	defer w.close()
	trace := 0
	for rep := 0; rep < envInt("VERIF_N", 2); rep++ {
		for _, qmax := range []int{1, 2} {
			for _, point := range []string{"acq.enter", "acq.exit"} {
				names := []string{"h", "a1", "a2", "a3"}
				c := newController()
				s := newScenario(t, c, names)
				s.settle = func() { s.settleRealTime(3*time.Millisecond, 300*time.Millisecond) }
				c.emit = s.ev
				limiter.VerifPoint = nil
				dl, busy, err := newDelegate(1, false)
				if err != nil {
					t.Fatal(err)
				}
				gl := &GatedLimiter{c: c, inner: dl}
				reg := newRecordingRegistry()
				s.lim = limiter.NewQueueBlockingLimiterFromConfig(gl, limiter.QueueLimiterConfig{Ordering: limiter.OrderingFIFO, MaxBacklogSize: qmax, MaxBacklogTimeout: -1, BacklogEvictDoneCtx: true, MetricRegistry: reg})
				s.extra = func() J {
					q, _ := reg.GaugeByID(core.MetricQueueSize)
					return J{"busy": busy(), "gauge": int(dl.VerifInFlight()), "q": q, "t": 0}
				}
				cfg := wrapCfg{Kind: "queue", Ctor: "arrival-race/" + point, Limit: 1, QMax: qmax, QTimeout: 0, EvictCtx: true, Ordering: "fifo", Expect: "any", Procs: names}
				w.write(J{"ev": "Reset", "trace": trace, "cfg": cfg, "obs": s.observe()})
				i := 0
				do := func(st schedStep) bool {
					if err := s.apply(st); err != nil {
						return false
					}
					i++
					w.write(J{"ev": "Step", "trace": trace, "i": i, "step": st, "evs": s.events(), "obs": s.observe()})
					return true
				}
				do(schedStep{A: "start", P: "h", Call: "acquire"})
				c.mu.Lock()
				c.enabled[point] = true
				c.mu.Unlock()
				for _, n := range names[1:] {
					do(schedStep{A: "start", P: n, Call: "acquire"})
				}
				time.Sleep(2 * time.Millisecond)
				c.mu.Lock()
				c.enabled = map[string]bool{}
				c.mu.Unlock()
				for n := 0; n < 12; n++ {
					pm := c.parkedMap()
					if len(pm) == 0 {
						break
					}
					keys := sortedKeys(pm)
					do(schedStep{A: "pass", P: keys[0], Gate: pm[keys[0]]})
				}
				do(schedStep{A: "start", P: "h", Call: "release", Outcome: "success"})
				for round := 0; round < 4; round++ {
					progressed := false
					for _, n := range names {
						if s.procs[n].state == "granted" {
							do(schedStep{A: "start", P: n, Call: "release", Outcome: "success"})
							progressed = true
						}
					}
					if !progressed {
						break
					}
				}
				for _, n := range names[1:] {
					if s.procs[n].state == "calling" {
						do(schedStep{A: "cancel", P: n})
					}
				}
				w.write(J{"ev": "End", "trace": trace, "i": i + 1, "obs": s.observe()})
				for _, n := range names {
					s.procs[n].cancel()
				}
				trace++
			}
		}
	}
}
