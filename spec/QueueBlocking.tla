------------------------------- MODULE QueueBlocking -------------------------------
(* Implementation-shaped model (I) of limiter/queue_blocking.go (QueueBlockingLimiter,       *)
(* QueueBlockingListener, queue) with the contract invariants of C02 / C10 / C11 / C12 /     *)
(* C13 / C19 stated over it.  One action per gate-to-gate segment of the Go code; the gates  *)
(* are the harness doubles GatedLimiter (acq.enter / acq.exit around the delegate attempt,   *)
(* for the caller's own attempt and for the attempt unblock() makes on a waiter's behalf),   *)
(* GatedListener (rel.exit between the delegate's completion and unblock(), also for the     *)
(* OnIgnore of a rejected hand-off) and the verif hook queue.afterPush (between the backlog  *)
(* push and the select).                                                                     *)
(*                                                                                           *)
(*   tryAcquire:  [acq.enter] delegate attempt [acq.exit]                                    *)
(*                granted: return | backlog full: refuse | push to the front of the backlog  *)
(*                [queue.afterPush] arm the timer, select on hand-off / timer / ctx.Done     *)
(*   completion:  delegate completion [rel.exit] unblock(): lock the limiter mutex, peek     *)
(*                (back for FIFO, front for LIFO), [acq.enter] attempt for the waiter        *)
(*                [acq.exit] evict it, hand the listener over with a non-blocking send;      *)
(*                a rejected hand-off is given back with OnIgnore [rel.exit]; unlock         *)
(*                                                                                           *)
(* LockedArrival / BufferedHandoff select the repaired design (the limiter mutex is held     *)
(* from the caller's attempt until its push, the hand-off channel has a buffer of one and    *)
(* the give-up paths evict under the mutex and then take a hand-off that raced with them);   *)
(* both FALSE is the code as delivered.  mu is modelled explicitly and every segment that    *)
(* needs it is guarded by mu = NoProc, so TLC never emits a schedule in which a goroutine    *)
(* would block on a mutex held by a parked goroutine (the bubble cannot wait for that).      *)
EXTENDS Integers, Sequences, FiniteSets, TLC, Json

CONSTANTS
  P, Limit, QMax,
  QTimeout,       \* backlog timeout in ticks; 0 = no timer (negative configuration value)
  EvictCtx,       \* BacklogEvictDoneCtx
  Ordering,       \* ordering installed in the backlog: "fifo" | "lifo"
  MaxTime, Cancellable, Outcomes,
  LockedArrival, BufferedHandoff,
  Emit

NoTimer == -1
NoProc == "-"

VARIABLES
  pc,        \* idle acqEnter acqExit pushed select held relExit uAcqEnter uAcqExit uRelExit done
  got,       \* result of the attempt the process is parked behind
  res,       \* none | granted | refused
  backlog,   \* waiters in the list, newest first
  mu,        \* holder of the limiter mutex, or NoProc
  tgt,       \* waiter an unblocking process is serving
  buf,       \* a listener is sitting in the waiter's hand-off channel (buffered design)
  timer, cancelled, held, now,
  arrival,   \* order in which callers fell asleep (for C11): sequence of processes
  lastGrant, \* [to, among] of the latest hand-off: who was asleep when it was chosen (C11)
  fl         \* history flags per process: the recorded finding classes (P3, P13, P14)
vars == <<pc, got, res, backlog, mu, tgt, buf, timer, cancelled, held, now, arrival, lastGrant, fl>>

St == [pc |-> pc, got |-> got, res |-> res, backlog |-> backlog, mu |-> mu, tgt |-> tgt, buf |-> buf,
       timer |-> timer, cancelled |-> cancelled, held |-> held, now |-> now, arrival |-> arrival,
       lastGrant |-> lastGrant, fl |-> fl]

Status(p) ==
  CASE pc[p] = "idle" -> "idle"
    [] pc[p] \in {"acqEnter", "uAcqEnter"} -> "gate:acq.enter"
    [] pc[p] \in {"acqExit", "uAcqExit"} -> "gate:acq.exit"
    [] pc[p] = "pushed" -> "gate:queue.afterPush"
    [] pc[p] = "select" -> "blocked"
    [] pc[p] = "held" -> "granted"
    [] pc[p] \in {"relExit", "uRelExit"} -> "gate:rel.exit"
    [] pc[p] = "done" /\ res[p] = "refused" -> "refused"
    [] OTHER -> "released"

Obs == [t |-> now, busy |-> held, gauge |-> held, q |-> Len(backlog),
        procs |-> [p \in P |-> Status(p)], kids |-> [p \in P |-> FALSE]]

Init ==
  /\ pc = [p \in P |-> "idle"] /\ got = [p \in P |-> FALSE] /\ res = [p \in P |-> "none"]
  /\ backlog = <<>> /\ mu = NoProc /\ tgt = [p \in P |-> NoProc] /\ buf = [p \in P |-> FALSE]
  /\ timer = [p \in P |-> NoTimer] /\ cancelled = [p \in P |-> FALSE] /\ held = 0 /\ now = 0
  /\ arrival = <<>> /\ lastGrant = [to |-> NoProc, among |-> <<>>]
  /\ fl = [p \in P |-> [p13 |-> FALSE, p3 |-> FALSE, p14 |-> FALSE]]

InSeq(x, s) == \E i \in 1..Len(s) : s[i] = x
Without(s, x) == SelectSeq(s, LAMBDA y : y # x)
Peek == IF Ordering = "fifo" THEN backlog[Len(backlog)] ELSE backlog[1]

(* ------------------------------------------------------------------ caller *)
Start(p) ==
  /\ pc[p] = "idle"
  /\ IF LockedArrival THEN mu = NoProc /\ mu' = p ELSE UNCHANGED mu
  /\ pc' = [pc EXCEPT ![p] = "acqEnter"]
  /\ UNCHANGED <<got, res, backlog, tgt, buf, timer, cancelled, held, now, arrival, lastGrant, fl>>

PassAcqEnter(p) ==
  /\ pc[p] = "acqEnter"
  /\ pc' = [pc EXCEPT ![p] = "acqExit"]
  /\ IF held < Limit
     THEN held' = held + 1 /\ got' = [got EXCEPT ![p] = TRUE]
     ELSE UNCHANGED held /\ got' = [got EXCEPT ![p] = FALSE]
  /\ fl' = [fl EXCEPT ![p] = [p13 |-> FALSE, p3 |-> FALSE, p14 |-> FALSE]]
  /\ UNCHANGED <<res, backlog, mu, tgt, buf, timer, cancelled, now, arrival, lastGrant>>

PassAcqExit(p) ==
  /\ pc[p] = "acqExit"
  /\ IF LockedArrival THEN mu' = NoProc ELSE UNCHANGED mu
  /\ IF got[p]
     THEN /\ pc' = [pc EXCEPT ![p] = "held"] /\ res' = [res EXCEPT ![p] = "granted"]
          /\ UNCHANGED <<backlog, arrival>>
     ELSE IF Len(backlog) >= QMax
     THEN /\ pc' = [pc EXCEPT ![p] = "done"] /\ res' = [res EXCEPT ![p] = "refused"]
          /\ UNCHANGED <<backlog, arrival>>
     ELSE /\ pc' = [pc EXCEPT ![p] = "pushed"] /\ backlog' = <<p>> \o backlog
          /\ arrival' = Append(arrival, p) /\ UNCHANGED res
  /\ UNCHANGED <<got, tgt, buf, timer, cancelled, held, now, lastGrant, fl>>

(* leaves the hook: arms the timer and selects; a listener already in the buffer, or a     *)
(* context already done (if eviction is enabled), ends the select at once                  *)
PassPushed(p) ==
  /\ pc[p] = "pushed"
  /\ IF buf[p]
     THEN \* Go's select may also take the ctx.Done case when both are ready: the give-up path then
          \* needs the mutex (and returns the buffered listener all the same)
          /\ (EvictCtx /\ cancelled[p] /\ LockedArrival) => mu = NoProc
          /\ pc' = [pc EXCEPT ![p] = "held"] /\ res' = [res EXCEPT ![p] = "granted"]
          /\ buf' = [buf EXCEPT ![p] = FALSE] /\ arrival' = Without(arrival, p)
          /\ UNCHANGED <<backlog, timer, mu>>
     ELSE IF EvictCtx /\ cancelled[p]
     THEN /\ (LockedArrival => mu = NoProc)
          /\ pc' = [pc EXCEPT ![p] = "done"] /\ res' = [res EXCEPT ![p] = "refused"]
          /\ backlog' = Without(backlog, p) /\ arrival' = Without(arrival, p)
          /\ UNCHANGED <<buf, timer, mu>>
     ELSE /\ pc' = [pc EXCEPT ![p] = "select"]
          /\ timer' = [timer EXCEPT ![p] = IF QTimeout > 0 THEN now + QTimeout ELSE NoTimer]
          /\ UNCHANGED <<res, backlog, buf, arrival, mu>>
  /\ UNCHANGED <<got, tgt, cancelled, held, now, lastGrant, fl>>

(* ------------------------------------------------------------------ completion *)
Release(p, o) ==
  /\ pc[p] = "held"
  /\ pc' = [pc EXCEPT ![p] = "relExit"]
  /\ held' = held - 1
  /\ UNCHANGED <<got, res, backlog, mu, tgt, buf, timer, cancelled, now, arrival, lastGrant, fl>>

(* unblock(): lock, peek; nobody queued: unlock and return *)
PassRelExit(p) ==
  /\ pc[p] = "relExit"
  /\ mu = NoProc
  /\ IF backlog = <<>>
     THEN /\ pc' = [pc EXCEPT ![p] = "done"] /\ UNCHANGED <<mu, tgt>>
          \* P13: a caller that failed its attempt and has not pushed yet is not seen
          /\ fl' = [q \in P |-> IF pc[q] = "acqExit" /\ ~got[q] THEN [fl[q] EXCEPT !.p13 = TRUE] ELSE fl[q]]
     ELSE /\ pc' = [pc EXCEPT ![p] = "uAcqEnter"] /\ mu' = p /\ tgt' = [tgt EXCEPT ![p] = Peek]
          /\ fl' = [q \in P |-> IF pc[q] = "acqExit" /\ ~got[q] THEN [fl[q] EXCEPT !.p13 = TRUE] ELSE fl[q]]
  /\ UNCHANGED <<got, res, backlog, buf, timer, cancelled, held, now, arrival, lastGrant>>

PassUAcqEnter(p) ==
  /\ pc[p] = "uAcqEnter"
  /\ pc' = [pc EXCEPT ![p] = "uAcqExit"]
  /\ IF held < Limit
     THEN held' = held + 1 /\ got' = [got EXCEPT ![p] = TRUE]
     ELSE UNCHANGED held /\ got' = [got EXCEPT ![p] = FALSE]
  /\ UNCHANGED <<res, backlog, mu, tgt, buf, timer, cancelled, now, arrival, lastGrant, fl>>

Asleep == {q \in P : pc[q] \in {"pushed", "select"} /\ InSeq(q, backlog)}

PassUAcqExit(p) ==
  /\ pc[p] = "uAcqExit"
  /\ LET w == tgt[p] IN
     IF ~got[p]
     THEN /\ pc' = [pc EXCEPT ![p] = "done"] /\ mu' = NoProc
          /\ UNCHANGED <<res, backlog, buf, timer, held, arrival, lastGrant, fl>>
     ELSE IF pc[w] = "select" /\ InSeq(w, backlog)
     THEN \* hand-off accepted: the waiter returns granted
          /\ pc' = [pc EXCEPT ![p] = "done", ![w] = "held"] /\ res' = [res EXCEPT ![w] = "granted"]
          /\ backlog' = Without(backlog, w) /\ timer' = [timer EXCEPT ![w] = NoTimer]
          /\ lastGrant' = [to |-> w, among |-> SelectSeq(arrival, LAMBDA q : q \in Asleep)]
          /\ arrival' = Without(arrival, w) /\ mu' = NoProc
          /\ UNCHANGED <<buf, held, fl>>
     ELSE IF BufferedHandoff /\ pc[w] = "pushed" /\ InSeq(w, backlog)
     THEN \* the listener waits in the channel buffer
          /\ pc' = [pc EXCEPT ![p] = "done"] /\ buf' = [buf EXCEPT ![w] = TRUE]
          /\ backlog' = Without(backlog, w) /\ mu' = NoProc
          /\ lastGrant' = [to |-> w, among |-> SelectSeq(arrival, LAMBDA q : q \in Asleep)]
          /\ UNCHANGED <<res, timer, held, arrival, fl>>
     ELSE \* rejected: evicted anyway, token given back with OnIgnore on the raw listener
          /\ pc' = [pc EXCEPT ![p] = "uRelExit"] /\ backlog' = Without(backlog, w)
          /\ held' = held - 1
          /\ fl' = [q \in P |-> IF q = w THEN [fl[q] EXCEPT !.p3 = TRUE]
                                ELSE IF pc[q] \in {"select", "pushed"} \/ (pc[q] = "acqExit" /\ ~got[q])
                                     THEN [fl[q] EXCEPT !.p14 = TRUE] ELSE fl[q]]
          /\ UNCHANGED <<res, buf, timer, arrival, lastGrant, mu>>
  /\ UNCHANGED <<got, tgt, cancelled, now>>

PassURelExit(p) ==
  /\ pc[p] = "uRelExit"
  /\ pc' = [pc EXCEPT ![p] = "done"] /\ mu' = NoProc
  /\ UNCHANGED <<got, res, backlog, tgt, buf, timer, cancelled, held, now, arrival, lastGrant, fl>>

(* ------------------------------------------------------------------ environment *)
(* a give-up (timer or cancellation) of a sleeper: evict; in the repaired design under the  *)
(* mutex and followed by taking a hand-off that raced with it                               *)
GiveUpPc(q) == IF BufferedHandoff /\ buf[q] THEN "held" ELSE "done"
GiveUpRes(q) == IF BufferedHandoff /\ buf[q] THEN "granted" ELSE "refused"

Cancel(p) ==
  /\ p \in Cancellable /\ ~cancelled[p] /\ pc[p] \in {"idle", "acqEnter", "acqExit", "pushed", "select"}
  /\ cancelled' = [cancelled EXCEPT ![p] = TRUE]
  /\ IF pc[p] = "select" /\ EvictCtx
     THEN /\ (LockedArrival => mu = NoProc)
          /\ pc' = [pc EXCEPT ![p] = GiveUpPc(p)] /\ res' = [res EXCEPT ![p] = GiveUpRes(p)]
          /\ backlog' = Without(backlog, p) /\ arrival' = Without(arrival, p)
          /\ timer' = [timer EXCEPT ![p] = NoTimer] /\ buf' = [buf EXCEPT ![p] = FALSE]
     ELSE UNCHANGED <<pc, res, backlog, arrival, timer, buf>>
  /\ UNCHANGED <<got, mu, tgt, held, now, lastGrant, fl>>

Due(q, t) == pc[q] = "select" /\ timer[q] # NoTimer /\ timer[q] <= t

Tick ==
  /\ now < MaxTime
  /\ (LockedArrival /\ mu # NoProc) => \A q \in P : ~Due(q, now + 1)
  /\ now' = now + 1
  /\ pc' = [q \in P |-> IF Due(q, now + 1) THEN GiveUpPc(q) ELSE pc[q]]
  /\ res' = [q \in P |-> IF Due(q, now + 1) THEN GiveUpRes(q) ELSE res[q]]
  /\ buf' = [q \in P |-> IF Due(q, now + 1) THEN FALSE ELSE buf[q]]
  /\ timer' = [q \in P |-> IF Due(q, now + 1) THEN NoTimer ELSE timer[q]]
  /\ backlog' = SelectSeq(backlog, LAMBDA q : ~Due(q, now + 1))
  /\ arrival' = SelectSeq(arrival, LAMBDA q : ~Due(q, now + 1))
  /\ UNCHANGED <<got, mu, tgt, cancelled, held, lastGrant, fl>>

Step(lbl) == Emit => PrintT(<<"T", ToJson([from |-> St, step |-> lbl, to |-> St', obs |-> Obs'])>>)

Next ==
  \/ \E p \in P : Start(p) /\ Step([a |-> "start", p |-> p, call |-> "acquire"])
  \/ \E p \in P : PassAcqEnter(p) /\ Step([a |-> "pass", p |-> p, gate |-> "acq.enter"])
  \/ \E p \in P : PassAcqExit(p) /\ Step([a |-> "pass", p |-> p, gate |-> "acq.exit"])
  \/ \E p \in P : PassPushed(p) /\ Step([a |-> "pass", p |-> p, gate |-> "queue.afterPush"])
  \/ \E p \in P, o \in Outcomes : Release(p, o) /\ Step([a |-> "start", p |-> p, call |-> "release", outcome |-> o])
  \/ \E p \in P : PassRelExit(p) /\ Step([a |-> "pass", p |-> p, gate |-> "rel.exit"])
  \/ \E p \in P : PassUAcqEnter(p) /\ Step([a |-> "pass", p |-> p, gate |-> "acq.enter"])
  \/ \E p \in P : PassUAcqExit(p) /\ Step([a |-> "pass", p |-> p, gate |-> "acq.exit"])
  \/ \E p \in P : PassURelExit(p) /\ Step([a |-> "pass", p |-> p, gate |-> "rel.exit"])
  \/ \E p \in P : Cancel(p) /\ Step([a |-> "cancel", p |-> p])
  \/ Tick /\ Step([a |-> "tick"])

Quiet ==   \* the same steps without the graph emission (for ENABLED)
  \/ \E p \in P : Start(p)
  \/ \E p \in P : PassAcqEnter(p)
  \/ \E p \in P : PassAcqExit(p)
  \/ \E p \in P : PassPushed(p)
  \/ \E p \in P, o \in Outcomes : Release(p, o)
  \/ \E p \in P : PassRelExit(p)
  \/ \E p \in P : PassUAcqEnter(p)
  \/ \E p \in P : PassUAcqExit(p)
  \/ \E p \in P : PassURelExit(p)
  \/ \E p \in P : Cancel(p)
  \/ Tick

EmitInit == Emit => /\ PrintT(<<"I", ToJson([st |-> St, obs |-> Obs])>>)
                    /\ PrintT(<<"C", ToJson([kind |-> "queue", limit |-> Limit, qmax |-> QMax, qtimeout |-> QTimeout,
                                             evictctx |-> EvictCtx, ordering |-> Ordering, procs |-> P,
                                             cancellable |-> Cancellable, horizon |-> MaxTime, blackbox |-> FALSE, allserved |-> FALSE, deadline |-> 0, expect |-> Ordering])>>)
InitE == Init /\ EmitInit

(* -------------------------------------------------------------------- contract (A) *)
Stable == \A p \in P : pc[p] \in {"idle", "select", "held", "done"}
Blocked(p) == pc[p] = "select"

Conservation ==
  held = Cardinality({p \in P : pc[p] = "held" \/ (pc[p] \in {"acqExit", "uAcqExit"} /\ got[p])})
         + Cardinality({p \in P : buf[p]})
NeverOver == held <= Limit
RefusedHoldsNothing == \A p \in P : res[p] = "refused" => (pc[p] = "done" /\ ~buf[p])

(* C10 *)
NoLostWakeup == Stable => \A p \in P : Blocked(p) => held >= Limit
NoLostWakeupExceptKnown ==
  Stable => \A p \in P : (Blocked(p) /\ held < Limit) => (fl[p].p13 \/ fl[p].p3 \/ fl[p].p14)

(* C12 *)
BacklogBounded == Len(backlog) <= QMax
BacklogExact == Stable => {backlog[i] : i \in 1..Len(backlog)} = {p \in P : Blocked(p)}
BacklogExactExceptKnown ==
  Stable => \A p \in P : (Blocked(p) /\ ~InSeq(p, backlog)) => fl[p].p3

(* C13 *)
TimeoutBound == Stable => \A p \in P : Blocked(p) => (timer[p] = NoTimer \/ timer[p] > now)
CancelBound == (Stable /\ EvictCtx) => \A p \in P : cancelled[p] => ~Blocked(p)

(* C11: a hand-off goes to the oldest (fifo) / newest (lifo) of the callers asleep *)
OrderOK ==
  lastGrant.to # NoProc =>
    LET a == lastGrant.among IN
    Len(a) > 0 /\ lastGrant.to = IF Ordering = "fifo" THEN a[1] ELSE a[Len(a)]

(* C19 / C10 liveness shape on a finite acyclic graph: every maximal behaviour ends in a state *)
(* without successors; if every such state has all callers granted and completed, then under  *)
(* fairness every caller is eventually served (use with no cancellation and no time-outs).     *)
TerminalAllServed == (~ENABLED Quiet) => \A p \in P : pc[p] = "done" /\ res[p] = "granted"

(* -------------------------------------------------------------------- liveness under fairness *)
(* (see Blocking.tla) the library's own steps are weakly fair per caller, the environment is not *)
Internal(p) == PassAcqEnter(p) \/ PassAcqExit(p) \/ PassPushed(p) \/ PassRelExit(p) \/ PassUAcqEnter(p) \/ PassUAcqExit(p) \/ PassURelExit(p)
LiveSpec == Init /\ [][Quiet]_vars /\ \A p \in P : WF_vars(Internal(p))
WakeUp == \A p \in P : (Blocked(p) /\ held < Limit) ~> (~Blocked(p) \/ held >= Limit)
CancelWakes == \A p \in P : (EvictCtx /\ cancelled[p] /\ Blocked(p)) ~> ~Blocked(p)
TimeoutWakes == \A p \in P : (Blocked(p) /\ timer[p] # NoTimer /\ timer[p] <= now) ~> ~Blocked(p)
ServeSpec == LiveSpec /\ \A p \in P : WF_vars(Start(p)) /\ WF_vars(\E o \in Outcomes : Release(p, o))
AllServed == <>[](\A p \in P : pc[p] = "done" /\ res[p] = "granted")
=================================================================================
