#!/usr/bin/env python3
"""Copies confirmed seeded changes from their scratch worktrees into /verif/seeded/<id>/ (patch.diff, the
demonstration, notes.md) and writes meta.json. The table below is maintained by hand from the sub-agents'
reports and from what was confirmed (bin/seedconfirm) and run (bin/seedcheck)."""
import glob
import json
import os
import shutil
import sys

SEEDS = {
    "C01-precise-saturated-flag": dict(wt="/tmp/mut/C01", prop="C01", demo_pkg="limiter", run="go test -vet=off -count=1 -run TestC01Demo ./limiter/",
        what="PreciseStrategy gets a lock-free 'saturated' fast path; SetLimit does not refresh the flag",
        needs="a limit increase while the strategy is saturated and no release before the next Acquire (directly: fill, SetLimit higher, TryAcquire; through the limiter: a down-then-up limit trajectory with more tokens out than the lowered limit)"),
    "C02-giveup-check-then-lock": dict(wt="/tmp/mut/C02", prop="C02", demo_pkg="limiter", run="go test -vet=off -count=1 -run TestDemoC02 ./limiter/",
        what="QueueBlockingLimiter.giveUp checks the hand-off channel before taking the limiter mutex instead of after evicting under it",
        needs="a waiter gives up (timeout or cancellation) while a completion's unblock() holds the mutex between peeking that waiter and handing the listener over: the token is orphaned"),
    "C03-swapdelete": dict(wt="/tmp/mut/C03", prop="C03", demo_pkg="strategy", run="go test -vet=off -count=1 -run C03Demo ./strategy/",
        what="RemovePartitionsMatching removes in place with swap-delete, reordering the surviving predicate partitions",
        needs=">= 3 partitions with overlapping predicates, removal of a non-last one, then a request matching two survivors (charged to the wrong bin; refused though its first-registered partition is under its share)"),
    "C04-log10-round": dict(wt="/tmp/mut/C04", prop="C04", demo_pkg="limit", run="go test -vet=off -count=1 -run TestC04Demo ./limit/",
        what="Log10RootFloatFunction rounds the fractional limit to index its table while the range guard checks the unrounded value",
        needs="Vegas with smoothing < 1, maximum >= 1000 and an estimate in [999.5, 1000): index out of range panic on every later sample"),
    "C05-setlimit-outside-lock": dict(wt="/tmp/mut/C05", prop="C05", demo_pkg="limiter", run="go test -vet=off -count=1 -run TestC05EnforcementFollowsEstimate ./limiter/",
        what="updateLimit calls strategy.SetLimit after releasing the limiter lock",
        needs="two window-closing completions: A delayed before SetLimit(e1), B closes a further window and installs e2, A's stale e1 lands last"),
    "C06-vegas-skip-store": dict(wt="/tmp/mut/C06", prop="C06", demo_pkg="limit", run="go test -vet=off -count=1 -run TestC06 ./limit/",
        what="Vegas returns early (without storing the float estimate) when the integer estimate is unchanged",
        needs="smoothing < 1 and at least two consecutive drops: sub-integer decreases are discarded, the estimate sticks one below its start and never reaches the floor"),
    "C07-log10-table-zero": dict(wt="/tmp/mut/C07", prop="C07", demo_pkg="limit", run="go test -vet=off -count=1 -run TestC07Demo ./limit/",
        what="the log10 lookup table loses its floor of 1 for entries 1..9",
        needs="a Vegas estimate below 10 (after drops or a small initial limit): alpha, beta, threshold and the steps are all 0, the estimate is frozen"),
    "C08-gradient-tolerance": dict(wt="/tmp/mut/C08", prop="C08", demo_pkg="limit", run="go test -vet=off -count=1 -run TestC08 ./limit/",
        what="Gradient's slope test truncates rttTolerance to an integer and the upper clamp is dropped",
        needs="a fractional tolerance (1.5, 2.5) and an RTT pair straddling floor(tol) x baseline: the higher RTT gets a gradient above 1"),
    "C09-stale-nextupdate": dict(wt="/tmp/mut/C09", prop="C09", demo_pkg="limiter", run="go test -vet=off -count=1 -run TestDemoC09 ./limiter/",
        what="updateLimit's under-lock double check reads the listener's private copy of nextUpdateTime",
        needs="a token acquired before a window close completing inside the following period when the new window is already ready: a second update within one period"),
    "C10-skip-broadcast": dict(wt="/tmp/mut/C10", prop="C10", demo_pkg="limiter", run="go test -vet=off -count=1 -tags c10demo -run TestC10Demo ./limiter/",
        what="DelegateListener skips the Broadcast when a 'blocked' counter is 0; callers are counted only while they sleep",
        needs="a release that lands between the caller's re-check and its increment of the counter"),
    "C11-requeue-front": dict(wt="/tmp/mut/C11", prop="C11", demo_pkg="limiter", run="go test -vet=off -count=1 -run TestMutantC11 ./limiter/",
        what="unblock() pops the waiter before asking the delegate and re-queues it at the newest position when the delegate refuses",
        needs="a FIFO backlog of >= 2 and a completion whose unblock finds the delegate refusing (an arrival took the freed token, or the limit shrank)"),
    "C12-atomic-size": dict(wt="/tmp/mut/C12", prop="C12", demo_pkg="limiter", run="go test -vet=off -count=1 -run TestC12Demo ./limiter/",
        what="the backlog length becomes an atomic counter decremented by the (idempotent) eviction closure",
        needs="a waiter giving up while unblock() is handing over to it: evicted twice, the counter drifts below the list length (queue size wrong, backlog over its maximum, or wrapped)"),
    "C13-stale-budget": dict(wt="/tmp/mut/C13", prop="C13", demo_pkg="limiter", run="go1.26.8 test -vet=off -count=1 -run TestC13Demo ./limiter/",
        what="the deadline limiter computes its wait budget once on entry and loops on a signal",
        needs="a blocked caller woken by a release before the deadline that loses the token: it blocks again for the full original budget, past its deadline"),
    "C14-le-memo": dict(wt="/tmp/mut/C14", prop="C14", demo_pkg="grpc", run="go test -vet=off -count=1 -run TestC14Demo ./grpc/",
        what="the limit-exceeded response is memoised unless a flag is cleared; the stream options do not clear it",
        needs="a custom stream limit-exceeded classifier whose code depends on the call, and at least two refusals"),
    "C15-vegas-probe-min": dict(wt="/tmp/mut/C15", prop="C15", demo_pkg="limit", run="go test -vet=off -count=1 -run TestC15 ./limit/",
        what="the Vegas probe calls MinimumMeasurement.Update (a min) instead of replacing the measurement",
        needs="a baseline set at a low RTT, then an RTT step up that persists across a probe: the obsolete low baseline survives every probe"),
    "C16-aimd-notify-unlocked": dict(wt="/tmp/mut/C16", prop="C16", demo_pkg="limit", run="go test -vet=off -count=1 -run TestC16 ./limit/",
        what="AIMD notifies its listeners after releasing its lock",
        needs="two concurrent samples that both change the limit: the notifications can be delivered in the opposite order of the updates"),
    "C18-window-drop-fastpath": dict(wt="/tmp/mut/C18", prop="C18", demo_pkg="measurements", run="go test -vet=off -count=1 -run TestC18 ./measurements/",
        what="AddDroppedSample returns the receiver unchanged when the window already has a drop",
        needs="two drops in one window, the later one at a larger in-flight count, and no later success at least as large"),
    "C19-coalesced-unblock": dict(wt="/tmp/mut/C19", prop="C19", demo_pkg="patterns/pool", run="go test -vet=off -count=1 -run TestC19Demo ./patterns/pool/",
        what="unblock() loops under the mutex and is coalesced through an atomic 'draining' flag cleared after the mutex is released",
        needs="limit >= 2, two queued callers, and a second completion landing between the draining completion's last refused attempt and its flag reset"),
    "C20-stop-no-wait": dict(wt="/tmp/mut/C20", prop="C20", demo_pkg="metric_registry/gometrics", run="go test -vet=off -count=1 -run TestDemoC20 ./metric_registry/...",
        what="the registries drop the WaitGroup: Stop only puts a token into the (buffered) stopper channel",
        needs="Stop called while a poll is in progress (or with a tick due): gauges are still polled and forwarded after Stop has returned"),
}


def main():
    results = json.load(open("/verif/seeded/results.json")) if os.path.exists("/verif/seeded/results.json") else {}
    for sid, m in SEEDS.items():
        d = os.path.join("/verif/seeded", sid)
        os.makedirs(d, exist_ok=True)
        wt = m["wt"]
        if os.path.isdir(wt):
            shutil.copy(os.path.join(wt, "mutant", "patch.diff"), os.path.join(d, "patch.diff"))
            for f in glob.glob(os.path.join(wt, "mutant", "*")) + glob.glob(os.path.join(wt, "mutant", "_demo", "*")):
                b = os.path.basename(f)
                if os.path.isfile(f) and (b.endswith(".go") or b == "notes.md"):
                    # demonstrations are stored with a .txt suffix so that no Go tool ever compiles them here
                    shutil.copy(f, os.path.join(d, b + (".txt" if b.endswith(".go") else "")))
        meta = {"id": sid, "breaks_property": m["prop"], "change": m["what"], "needs_to_manifest": m["needs"],
                "demonstration": {"copy_into": m["demo_pkg"], "run": m["run"], "files": sorted(x for x in os.listdir(d) if x.endswith(".go.txt"))},
                "confirmed": "bin/seedconfirm in a scratch worktree: existing suite passes with the change, demonstration fails with it and passes without it",
                "checks_run": results.get(sid, {})}
        with open(os.path.join(d, "meta.json"), "w") as f:
            json.dump(meta, f, indent=1)
    print("seeded:", len(SEEDS))


if __name__ == "__main__":
    main()
