---------------------------------- MODULE Registry ----------------------------------
(* Implementation-shaped model of the poller life cycle of the two bundled metric registries *)
(* (metric_registry/gometrics/registry.go, metric_registry/datadog/registry.go; they share    *)
(* the code), life-cycle half of C20.                                                         *)
(*                                                                                            *)
(*   Start:  lock; if !started { wg.Add(1); go run() }  [repaired: started = true]; unlock    *)
(*   run:    ticker; loop: select { <-stopper: return; <-ticker.C: lock; poll gauges; unlock }*)
(*   Stop:   lock; if !started { unlock; return }; stopper <- true (buffer 1); wg.Wait();     *)
(*           started = false; unlock                                                          *)
(*           [repaired: Start and Stop serialise on a life-cycle mutex of their own; the       *)
(*            poller only takes the gauge mutex - waiting for the poller while holding the    *)
(*            mutex it needs for a poll is a deadlock]                                        *)
(*                                                                                            *)
(* Variant = "delivered" (started is never set), "flagonly" (only started = true added: TLC   *)
(* finds the deadlock), "repaired".                                                           *)
EXTENDS Integers, Sequences, FiniteSets, TLC

CONSTANTS ScriptName, Variant, MaxTicks, MaxPollers

(* caller scripts (a .cfg file cannot hold tuples): each caller runs its sequence of calls *)
Script == CASE ScriptName = "seq" -> [c1 |-> <<"start", "start", "stop", "stop", "start", "stop">>]
            [] ScriptName = "two" -> [c1 |-> <<"start", "stop">>, c2 |-> <<"start", "stop">>]
            [] OTHER -> [c1 |-> <<"start", "stop">>, c2 |-> <<"stop", "start">>]

NoProc == "-"

VARIABLES
  mu, started, stopper, wg,
  pollers,    \* [id -> pc]  pc: "select" | "wantLock"
  nextId,
  cpc,        \* caller c: index of the call it is about to make, and phase
  cphase,     \* "idle" | "stopSignal" | "stopWait" (holding mu in the non-repaired variants)
  ticks,
  life,       \* "stopped" | "started": set by a Start call beginning, reset by a Stop call returning
  badPoll     \* a poll happened while life = "stopped"
vars == <<mu, started, stopper, wg, pollers, nextId, cpc, cphase, ticks, life, badPoll>>

C == DOMAIN Script

Init ==
  /\ mu = NoProc /\ started = FALSE /\ stopper = 0 /\ wg = 0 /\ pollers = <<>> /\ nextId = 1
  /\ cpc = [c \in C |-> 1] /\ cphase = [c \in C |-> "idle"] /\ ticks = 0 /\ life = "stopped" /\ badPoll = FALSE

Ids == DOMAIN pollers
CallOf(c) == IF cpc[c] <= Len(Script[c]) THEN Script[c][cpc[c]] ELSE "none"

StartCall(c) ==
  /\ cphase[c] = "idle" /\ CallOf(c) = "start" /\ mu = NoProc
  /\ IF ~started /\ Cardinality(Ids) < MaxPollers
     THEN /\ pollers' = [i \in Ids \cup {nextId} |-> IF i = nextId THEN "select" ELSE pollers[i]]
          /\ nextId' = nextId + 1 /\ wg' = wg + 1
     ELSE UNCHANGED <<pollers, nextId, wg>>
  /\ started' = IF Variant = "delivered" THEN started ELSE TRUE
  /\ cpc' = [cpc EXCEPT ![c] = @ + 1]
  /\ life' = "started"
  /\ UNCHANGED <<mu, stopper, cphase, ticks, badPoll>>

(* Stop, non-repaired: everything under the mutex *)
StopLock(c) ==
  /\ cphase[c] = "idle" /\ CallOf(c) = "stop" /\ mu = NoProc
  /\ IF ~started
     THEN /\ cpc' = [cpc EXCEPT ![c] = @ + 1] /\ life' = "stopped"
          /\ UNCHANGED <<mu, cphase, started>>
     ELSE /\ mu' = c /\ cphase' = [cphase EXCEPT ![c] = "stopSignal"] /\ UNCHANGED <<cpc, life, started>>
  /\ UNCHANGED <<stopper, wg, pollers, nextId, ticks, badPoll>>

StopSignal(c) ==
  /\ cphase[c] = "stopSignal" /\ stopper = 0
  /\ stopper' = 1 /\ cphase' = [cphase EXCEPT ![c] = "stopWait"]
  /\ UNCHANGED <<mu, started, wg, pollers, nextId, cpc, ticks, life, badPoll>>

StopWait(c) ==
  /\ cphase[c] = "stopWait" /\ wg = 0
  /\ cphase' = [cphase EXCEPT ![c] = "idle"] /\ cpc' = [cpc EXCEPT ![c] = @ + 1]
  /\ mu' = NoProc /\ started' = FALSE
  /\ life' = "stopped"
  /\ UNCHANGED <<stopper, wg, pollers, nextId, ticks, badPoll>>

(* poller *)
TickFire(i) ==
  /\ pollers[i] = "select" /\ ticks < MaxTicks
  /\ pollers' = [pollers EXCEPT ![i] = "wantLock"] /\ ticks' = ticks + 1
  /\ UNCHANGED <<mu, started, stopper, wg, nextId, cpc, cphase, life, badPoll>>

Poll(i) ==
  \* mu models the mutex Start/Stop hold; in the repaired design the poller takes a different (gauge) mutex
  /\ pollers[i] = "wantLock" /\ (Variant = "repaired" \/ mu = NoProc)
  /\ pollers' = [pollers EXCEPT ![i] = "select"]
  /\ badPoll' = (badPoll \/ life = "stopped")
  /\ UNCHANGED <<mu, started, stopper, wg, nextId, cpc, cphase, ticks, life>>

PollerStop(i) ==
  /\ pollers[i] = "select" /\ stopper = 1
  /\ stopper' = 0 /\ wg' = wg - 1
  /\ pollers' = [j \in Ids \ {i} |-> pollers[j]]
  /\ UNCHANGED <<mu, started, nextId, cpc, cphase, ticks, life, badPoll>>

Next ==
  \/ \E c \in C : StartCall(c) \/ StopLock(c) \/ StopSignal(c) \/ StopWait(c)
  \/ \E i \in Ids : TickFire(i) \/ Poll(i) \/ PollerStop(i)

AllCallsDone == \A c \in C : cpc[c] > Len(Script[c]) /\ cphase[c] = "idle"

(* ---- contract ---- *)
AtMostOnePoller == Cardinality(Ids) <= 1
PollOnlyWhileStarted == ~badPoll
(* every Stop returns: a state without successors has all calls finished *)
StopTerminates == (~ENABLED Next) => AllCallsDone
(* once everything has returned and the last word was Stop, no poller is left *)
NoPollerAfterStop == (AllCallsDone /\ life = "stopped") => Ids = {}
=================================================================================
