"""Per-property check pipelines (see DESIGN.md section 5)."""
import json
import os

import vlib
from vlib import Machinery


# ------------------------------------------------------------------ shared helpers
def emit_graph(run, r, path):
    """Write the C / I / T lines printed by a *_gen TLC run as one ndjson graph file."""
    n = 0
    with open(path, "w") as f:
        for tag in ("C", "I", "T"):
            for v in r.json_prints(tag):
                f.write(json.dumps({"t": tag, "v": v}, separators=(",", ":")) + "\n")
                if tag == "T":
                    n += 1
    if n == 0:
        raise Machinery("TLC %s emitted no transitions" % r.label)
    return n


def graph_report(run, prop_what, rep, label):
    """Fold a harness graph-replay report into the run; mismatches are contract violations by the real code."""
    run.extra.setdefault("replay", []).append({k: rep[k] for k in ("states", "edges", "edges_covered", "steps_executed", "restarts", "edges_unreachable")} | {"graph": label})
    run.traces += 1
    run.events += rep["steps_executed"]
    if rep["edges_unreachable"] > 0 and not rep.get("mismatches"):
        raise Machinery("%s: %d transitions of the TLC graph could not be reached on the real code" % (label, rep["edges_unreachable"]))
    for s in rep.get("samples") or []:
        run.sample({"graph": label, "transition": s})
    return rep["mismatches"] or []


def validate_trace(run, module, cfg, trace_path, nlines, dfs=False):
    """TLC trace validation of a deterministic contract: returns the list of REJECT records."""
    r = run.tlc(module, cfg, workers=1, env={"VERIF_TRACE": trace_path}, dfs=dfs, label="val:" + module)
    if r.error or not r.ok:
        raise Machinery("trace validation %s failed to run: %s %s\n%s" % (module, r.error, r.violation, r.raw[-3000:]))
    consumed = [int(x) for x in r.prints.get("CONSUMED", [])]
    if not consumed or max(consumed) != nlines:
        raise Machinery("trace validation %s consumed %s of %d lines\n%s" % (module, consumed, nlines, r.raw[-3000:]))
    run.extra.setdefault("val", []).append({"module": module, "lines": nlines, "states": r.distinct, "wall_s": r.wall})
    return r.json_prints("REJECT")


# ------------------------------------------------------------------------------ C03
def partition_pipeline(run, prop, classify):
    """Shared by C03 (admission/bins) - the same machinery also yields the share observations of C05."""
    th = run.tier == "thorough"
    # 1. design level: the contract's consequences in every reachable state (small constants)
    suffix = "_th" if th else ""
    for kind in ("lookup", "predicate"):
        run.mc("PartitionMC", "Partition_mc_%s%s.cfg" % (kind, suffix), coverage=th)
    run.neg("PartitionMC", "Partition_neg_unknown.cfg")
    run.neg("PartitionMC", "Partition_neg_add.cfg")
    # 2. model -> code: every transition of the state graph on the real strategies
    indir = os.path.join(run.scratch, "in")
    os.makedirs(indir, exist_ok=True)
    for kind in ("lookup", "predicate"):
        r = run.tlc("PartitionMC", "Partition_gen_%s%s.cfg" % (kind, suffix), workers=1, label="gen:" + kind)
        if r.error or not r.ok:
            raise Machinery("gen %s: %s %s\n%s" % (kind, r.error, r.violation, r.raw[-2000:]))
        emit_graph(run, r, os.path.join(indir, "partition_%s.ndjson" % kind))
    out, _ = run.go("^TestPartitionReplay$", env={"VERIF_IN": indir})
    exhaustive = True
    for kind in ("lookup", "predicate"):
        rep = json.load(open(os.path.join(out, "replay_%s.json" % kind)))
        for m in graph_report(run, prop, rep, "Partition/" + kind):
            sig = classify(kind, m)
            run.report("%s strategy: after %s the real strategy returned %s / state %s, the contract fixes %s / %s" % (
                kind, json.dumps(m["op"]), m["got_res"], m["got_obs"], m["exp_res"], m["exp_obs"]),
                {"kind": kind, "mismatch": m, "rerun": "bin/check %s" % prop}, sig)
        exhaustive = exhaustive and rep["edges_unreachable"] == 0
    run.exhaustive = exhaustive
    # 3. code -> model: random long histories with large limits, dyadic fractions, dynamic partitions
    n = 2000 if th else 200
    out, _ = run.go("^TestPartitionRandom$", env={"VERIF_N": n})
    tp = os.path.join(out, "partition_trace.ndjson")
    rows = vlib.read_ndjson(tp)
    rejects = validate_trace(run, "PartitionTrace", "Partition_trace.cfg", tp, len(rows))
    ntr = len([x for x in rows if x["ev"] == "Reset"])
    run.traces += ntr
    run.events += len(rows)
    run.sample({"trace_excerpt": rows[:4]})
    for rj in rejects:
        tr = [x for x in rows if x["trace"] == rj["trace"]]
        upto = [x for x in tr][: 1 + sum(1 for x in rows[: rj["line"]] if x["trace"] == rj["trace"])]
        sig = classify(upto[0]["cfg"]["kind"], {"op": rj.get("op"), "exp_res": json.dumps(rj["expected"].get("res")) if isinstance(rj["expected"], dict) else "", "trace": True, "why": rj["why"]})
        run.report("recorded history %d rejected by Partition contract at line %d (%s): expected %s, logged %s" % (
            rj["trace"], rj["line"], rj["why"], json.dumps(rj["expected"]), json.dumps(rj["logged"])),
            {"trace": upto, "reject": rj, "rerun": "VERIF_SEED=%d bin/check %s" % (run.seed, prop)}, sig)
    run.assumptions += [
        "TLC explores the contract for 3 partition objects, fractions in quarters, limits {1,2,4}, at most %d outstanding tokens; every transition of that graph is executed on the real strategies" % (7 if th else 5),
        "random histories use dyadic fractions (k/16) so that Go's float product limit*percent is exact",
        "calls are sequential in these drivers (the strategies serialise all calls behind one mutex)",
    ]


def c03(run):
    def classify(kind, m):
        return {"kind": kind, "op": (m.get("op") or {}).get("op") if isinstance(m.get("op"), dict) else None}
    partition_pipeline(run, "C03", classify)


CHECKS = {
    "C03": c03,
}
