//go:build verif

package harness

import (
	"context"
	"path/filepath"
	"runtime"
	"sync"
	"sync/atomic"
	"testing"

	"github.com/platinummonkey/go-concurrency-limits/core"
	"github.com/platinummonkey/go-concurrency-limits/limit"
	"github.com/platinummonkey/go-concurrency-limits/limiter"
	"github.com/platinummonkey/go-concurrency-limits/strategy"
)

// recStrategy wraps a real strategy and logs SetLimit as its own call (it runs inside the
// limiter's lock, i.e. at the linearisation point of the limit change).
type recStrategy struct {
	core.Strategy
	log func(kind string, v int) func(ok bool)
}

func (r *recStrategy) SetLimit(v int) {
	end := r.log("set", v)
	r.Strategy.SetLimit(v)
	end(true)
}

// TestGateStress records histories of 2-8 free-running goroutines (real scheduler, random yields)
// that acquire and complete tokens of real limiters / strategies while the limit moves; every call is
// bracketed by begin / end events numbered by one atomic counter. TLC checks the histories for
// linearisability against the atomic gate (spec/GateTrace.tla).
func TestGateStress(t *testing.T) {
	n := envInt("VERIF_N", 60)
	w := newNdWriter(t, filepath.Join(outDir(t), "gate_trace.ndjson"))
	defer w.close()
	limiter.VerifPoint, strategy.VerifPoint = nil, nil
	for k := 0; k < n; k++ {
		r := newRng(seed(), uint64(k))
		kind := []string{"default+simple", "default+precise", "precise-direct"}[k%3]
		lim := r.between(1, 3)
		var mu sync.Mutex
		var events []J
		var seq, ids int64
		samples := &sampleRegistry{}
		logEv := func(e J) {
			mu.Lock()
			e["seq"] = atomic.AddInt64(&seq, 1)
			events = append(events, e)
			mu.Unlock()
		}
		begin := func(kind string, v int) func(ok bool) {
			id := atomic.AddInt64(&ids, 1)
			logEv(J{"t": "b", "id": id, "kind": kind, "v": v})
			return func(ok bool) {
				e := J{"t": "e", "id": id, "ok": ok, "n": -1}
				if kind == "acq" {
					e["n"] = samples.take()
				}
				logEv(e)
			}
		}
		script := []int{}
		for i := r.between(2, 6); i > 0; i-- {
			script = append(script, []int{0, 1, 2, 3, 4}[r.intn(5)])
		}
		var lm core.Limiter
		var direct *strategy.PreciseStrategy
		switch kind {
		case "precise-direct":
			direct = strategy.NewPreciseStrategyWithMetricRegistry(lim, samples)
			lm = &strategyLimiter{direct}
		default:
			var st core.Strategy
			if kind == "default+simple" {
				st = strategy.NewSimpleStrategyWithMetricRegistry(lim, samples)
			} else {
				st = strategy.NewPreciseStrategyWithMetricRegistry(lim, samples)
			}
			sl := &ScriptedLimit{est: lim, script: script}
			dl, err := limiter.NewDefaultLimiter(sl, 1, 1, 0, 10, &recStrategy{Strategy: st, log: begin}, nil, core.EmptyMetricRegistryInstance)
			if err != nil {
				t.Fatal(err)
			}
			lm = dl
		}
		// the constructor's SetLimit(estimate) has been logged; start the history after it
		events = nil
		w.write(J{"t": "reset", "trace": k, "kind": kind, "limit": lim, "id": 0, "v": 0, "ok": true, "n": -1})
		g := r.between(2, 8)
		if !thorough() && g > 5 {
			g = 5
		}
		ops := r.between(10, 30)
		var wg sync.WaitGroup
		for gi := 0; gi < g; gi++ {
			gr := newRng(seed()*1000003+uint64(k), uint64(gi))
			wg.Add(1)
			go func() {
				defer wg.Done()
				var mine []core.Listener
				for i := 0; i < ops; i++ {
					if gr.chance(1, 3) {
						runtime.Gosched()
					}
					if direct != nil && gr.chance(1, 8) {
						// the strategy's limit moves while tokens are out (used directly: SetLimit is a public call)
						v := gr.between(0, 5)
						end := begin("set", v)
						direct.SetLimit(v)
						end(true)
						continue
					}
					if len(mine) > 0 && gr.chance(1, 2) {
						l := mine[len(mine)-1]
						mine = mine[:len(mine)-1]
						end := begin("rel", 0)
						switch gr.intn(4) {
						case 0:
							l.OnIgnore()
						case 1:
							l.OnDropped()
						default:
							l.OnSuccess()
						}
						end(true)
						continue
					}
					end := begin("acq", 0)
					l, ok := lm.Acquire(context.Background())
					end(ok && l != nil)
					if ok && l != nil {
						mine = append(mine, l)
					}
				}
				for _, l := range mine {
					end := begin("rel", 0)
					l.OnSuccess()
					end(true)
				}
			}()
		}
		wg.Wait()
		for _, e := range events {
			e["trace"] = k
			for _, f := range []string{"id", "kind", "v", "ok", "n"} {
				if _, has := e[f]; !has {
					e[f] = map[string]any{"id": 0, "kind": "", "v": 0, "ok": true, "n": -1}[f]
				}
			}
			w.write(e)
		}
	}
	// limit updates racing completions and grants: completions do not take the limiter's mutex, and SetLimit is a public call
	// of a strategy used directly - six workers acquire and release a hundred thousand times each while a seventh goroutine
	// keeps setting the (same) limit. That phase is not recorded; once everything is given back the strategy is probed
	// sequentially and the probe is the history: a gate with nothing out grants exactly its limit and refuses the next.
	type probe struct {
		kind string
		mk   func(lim int) (core.Limiter, func(int))
	}
	probes := []probe{
		{"simple-direct/after-updates", func(lim int) (core.Limiter, func(int)) {
			st := strategy.NewSimpleStrategy(lim)
			return &strategyLimiter{st}, st.SetLimit
		}},
		{"precise-direct/after-updates", func(lim int) (core.Limiter, func(int)) {
			st := strategy.NewPreciseStrategy(lim)
			return &strategyLimiter{st}, st.SetLimit
		}},
		{"default+simple/after-updates", func(lim int) (core.Limiter, func(int)) {
			st := strategy.NewSimpleStrategy(lim)
			dl, err := limiter.NewDefaultLimiter(limit.NewFixedLimit("probe", lim, nil), 1e9, 1e9, 1e5, 100, st, nil, core.EmptyMetricRegistryInstance)
			if err != nil {
				t.Fatal(err)
			}
			return dl, st.SetLimit
		}},
	}
	k := n
	for _, p := range probes {
		lim := 6
		lm, set := p.mk(lim)
		stop := make(chan struct{})
		var setter sync.WaitGroup
		setter.Add(1)
		go func() {
			defer setter.Done()
			for {
				select {
				case <-stop:
					return
				default:
					set(lim)
				}
			}
		}()
		var wg sync.WaitGroup
		for g := 0; g < 6; g++ {
			wg.Add(1)
			go func() {
				defer wg.Done()
				for i := 0; i < 100000; i++ {
					if l, ok := lm.Acquire(context.Background()); ok && l != nil {
						l.OnIgnore()
					}
				}
			}()
		}
		wg.Wait()
		close(stop)
		setter.Wait()
		w.write(J{"t": "reset", "trace": k, "kind": p.kind, "limit": lim, "id": 0, "v": 0, "ok": true, "n": -1})
		var sq, id int64
		var held []core.Listener
		for i := 0; i < lim+2; i++ {
			id++
			sq++
			w.write(J{"t": "b", "trace": k, "id": id, "kind": "acq", "v": 0, "ok": true, "n": -1, "seq": sq})
			l, ok := lm.Acquire(context.Background())
			sq++
			w.write(J{"t": "e", "trace": k, "id": id, "kind": "", "v": 0, "ok": ok && l != nil, "n": -1, "seq": sq})
			if ok && l != nil {
				held = append(held, l)
			}
		}
		for _, l := range held {
			l.OnIgnore()
		}
		k++
	}
}

// sampleRegistry is a metric registry whose listeners remember, per calling goroutine, the last sample added: the
// strategies emit their in-flight sample from inside TryAcquire, on the caller's goroutine.
type sampleRegistry struct{ last sync.Map }

type sampleListener struct{ r *sampleRegistry }

func (l *sampleListener) AddSample(v float64, tags ...string) { l.r.last.Store(goid(), int(v)) }

func (r *sampleRegistry) take() int {
	v, ok := r.last.LoadAndDelete(goid())
	if !ok {
		return -1
	}
	return v.(int)
}
func (r *sampleRegistry) RegisterDistribution(string, ...string) core.MetricSampleListener {
	return &sampleListener{r}
}
func (r *sampleRegistry) RegisterTiming(string, ...string) core.MetricSampleListener {
	return &sampleListener{r}
}
func (r *sampleRegistry) RegisterCount(string, ...string) core.MetricSampleListener {
	return &sampleListener{r}
}
func (r *sampleRegistry) RegisterGauge(string, core.MetricSupplier, ...string) {}
func (r *sampleRegistry) Start()                                               {}
func (r *sampleRegistry) Stop()                                                {}
