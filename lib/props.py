"""Per-property check pipelines (see DESIGN.md section 5)."""
import concurrent.futures
import json
import os

import configs
import vlib
from vlib import Machinery


# ------------------------------------------------------------------ shared helpers
def emit_graph(run, r, path):
    """Write the C / I / T lines printed by a *_gen TLC run as one ndjson graph file."""
    n = 0
    with open(path, "w") as f:
        for tag in ("C", "I", "T"):
            for v in r.json_prints(tag):
                f.write(json.dumps({"t": tag, "v": v}, separators=(",", ":")) + "\n")
                if tag == "T":
                    n += 1
    if n == 0:
        raise Machinery("TLC %s emitted no transitions" % r.label)
    return n


def graph_report(run, prop_what, rep, label):
    """Fold a harness graph-replay report into the run; mismatches are contract violations by the real code."""
    run.extra.setdefault("replay", []).append({k: rep[k] for k in ("states", "edges", "edges_covered", "steps_executed", "restarts", "edges_unreachable")} | {"graph": label})
    run.traces += 1
    run.events += rep["steps_executed"]
    if rep["edges_unreachable"] > 0 and not rep.get("mismatches"):
        raise Machinery("%s: %d transitions of the TLC graph could not be reached on the real code" % (label, rep["edges_unreachable"]))
    for s in rep.get("samples") or []:
        run.sample({"graph": label, "transition": s})
    return rep["mismatches"] or []


def validate_trace(run, module, cfg, trace_path, nlines, dfs=False):
    """TLC trace validation of a deterministic contract: returns the list of REJECT records."""
    r = run.tlc(module, cfg, workers=1, env={"VERIF_TRACE": trace_path}, dfs=dfs, label="val:" + module)
    if r.error or not r.ok:
        raise Machinery("trace validation %s failed to run: %s %s\n%s" % (module, r.error, r.violation, r.raw[-3000:]))
    consumed = [int(x) for x in r.prints.get("CONSUMED", [])]
    if not consumed or max(consumed) != nlines:
        raise Machinery("trace validation %s consumed %s of %d lines\n%s" % (module, consumed, nlines, r.raw[-3000:]))
    run.extra.setdefault("val", []).append({"module": module, "lines": nlines, "states": r.distinct, "wall_s": r.wall})
    return r.json_prints("REJECT")


def split_trace(path, nshards, outdir):
    """Split an ndjson log at Reset boundaries into about nshards files; returns [(path, nlines)]."""
    shards, cur, curf, n = [], None, None, 0
    total = sum(1 for _ in open(path))
    per = max(1, total // nshards)
    idx = 0
    with open(path) as f:
        for line in f:
            if curf is None or (n >= per and line.startswith('{"cfg"') or (n >= per and '"ev":"Reset"' in line[:400])):
                if curf:
                    curf.close()
                    shards.append((cur, n))
                idx += 1
                cur = os.path.join(outdir, "shard%d.ndjson" % idx)
                curf = open(cur, "w")
                n = 0
            curf.write(line)
            n += 1
    if curf:
        curf.close()
        shards.append((cur, n))
    return shards


def validate_sharded(run, module, cfg, trace_path, max_shards=12, per_shard=40000):
    """Trace validation of a large log: shards validated by concurrent TLC processes."""
    total = sum(1 for _ in open(trace_path))
    nsh = max(1, min(max_shards, total // per_shard + 1))
    d = os.path.join(run.scratch, "shards%d" % len(run.tlc_runs))
    os.makedirs(d, exist_ok=True)
    shards = split_trace(trace_path, nsh, d) if nsh > 1 else [(trace_path, total)]
    rejects = []

    def one(sh):
        path, n = sh
        r = run.tlc(module, cfg, workers=1, env={"VERIF_TRACE": path}, label="val:%s[%d lines]" % (module, n),
                    jvm="-Xmx3g -XX:ParallelGCThreads=2")
        if r.error or not r.ok:
            raise Machinery("trace validation %s failed to run: %s %s\n%s" % (module, r.error, r.violation, r.raw[-3000:]))
        consumed = [int(x) for x in r.prints.get("CONSUMED", [])]
        if not consumed or max(consumed) != n:
            raise Machinery("trace validation %s consumed %s of %d lines\n%s" % (module, consumed, n, r.raw[-3000:]))
        return r.json_prints("REJECT")

    with concurrent.futures.ThreadPoolExecutor(max_workers=min(len(shards), 12)) as ex:
        for rj in ex.map(one, shards):
            rejects += rj
    run.extra.setdefault("val", []).append({"module": module, "lines": total, "shards": len(shards)})
    return rejects, total


# ---------------------------------------------------------------- blocking wrappers (C02 C10-C13 C19)
def handle_rejects(run, prop, rejects, tp, classes, stack, all_rejects):
    rows = None
    seen = set()
    for rj in rejects:
        key = (rj["trace"], rj["class"], rj.get("p"))
        if key in seen:
            continue
        seen.add(key)
        rj["_stack"] = stack
        all_rejects.append(rj)
        if rj["class"] in classes:
            if rows is None:
                rows = vlib.read_ndjson(tp)
            tr = [x for x in rows if x["trace"] == rj["trace"] and (x["ev"] == "Reset" or x.get("i", 0) <= rj["i"])]
            cfg = tr[0]["cfg"] if tr else {}
            sig = {"class": rj["class"], "kind": cfg.get("kind"), "known": rj.get("known", "")}
            run.report("%s limiter%s: recorded execution rejected by the contract (%s: %s, process %s) after step %s" % (
                cfg.get("kind"), (" built by " + cfg["ctor"]) if cfg.get("ctor") else "", rj["class"], rj["why"], rj.get("p"), json.dumps(rj["step"])),
                {"config": cfg, "schedule": [x.get("step") for x in tr[1:]], "trace": tr, "reject": rj,
                 "rerun": "VERIF_SEED=%d bin/check %s --tier %s" % (run.seed, prop, run.tier)}, sig)


def wrapper_random(run, prop, classes, n, all_rejects):
    """Free-running seeded scenarios over every constructor (configuration, defaults, deprecated constructors, pools)."""
    out, _ = run.go("^TestWrapperRandom$", env={"VERIF_N": n}, timeout=900)
    tp = os.path.join(out, "wrapper_trace.ndjson")
    rejects, total = validate_sharded(run, "WrapperTrace", "Wrapper_trace.cfg", tp)
    run.events += total
    stats = {"scenarios": 0, "handoffs": 0, "refusals": 0, "grants_after_sleep": 0, "allserved_scenarios": 0, "ctors": {}}
    with open(tp) as f:
        for line in f:
            x = json.loads(line)
            if x["ev"] == "Reset":
                stats["scenarios"] += 1
                stats["ctors"][x["cfg"]["ctor"]] = stats["ctors"].get(x["cfg"]["ctor"], 0) + 1
                stats["allserved_scenarios"] += 1 if x["cfg"]["allserved"] else 0
                if stats["scenarios"] == 1:
                    run.sample({"free_running_scenario_config": x["cfg"]})
            elif x["ev"] == "Step":
                for e in x["evs"]:
                    if e["k"] == "want" and e["by"] != e["for"]:
                        stats["handoffs"] += 1
                    if e["k"] == "ret" and not e["ok"]:
                        stats["refusals"] += 1
                    if e["k"] == "ret" and e["ok"] and x["step"].get("p") != e["p"]:
                        stats["grants_after_sleep"] += 1
    run.traces += stats["scenarios"]
    run.extra["free_running"] = stats
    if stats["grants_after_sleep"] == 0 or stats["refusals"] == 0:
        raise Machinery("free-running driver is vacuous: %s" % stats)
    handle_rejects(run, prop, rejects, tp, classes, "free-running", all_rejects)


def wrapper_pipeline(run, prop, names, negs, classes, random_n=0, extra_invs=None):
    """mc (+ graph emission) of the implementation-shaped models, negs, replay of every transition on the
    real limiters, validation of the recorded executions against the contract WrapperTrace.
    Rejections whose class is in `classes` are violations of `prop`."""
    indir = os.path.join(run.scratch, "in")
    os.makedirs(indir, exist_ok=True)
    kinds = set()
    th = run.tier == "thorough"
    for name in names:
        module, consts = configs.WRAPPER[name]
        text = configs.cfg_text(consts, configs.invs(module) + (extra_invs or {}).get(name, []), configs.props_of(module), emit=True)
        r = run.tlc(module, name + ".cfg", cfg_text=text, label="mc+gen:%s" % name, coverage=False)
        if r.error:
            raise Machinery("TLC %s: %s\n%s" % (r.label, r.error, r.raw[-3000:]))
        if not r.ok:
            raise Machinery("TLC %s reports %s on the implementation-shaped model (no real-code trace yet):\n%s" % (r.label, r.violation, r.raw[-5000:]))
        run.states += r.distinct
        run.transitions += r.generated
        prefix = "blocking" if module == "Blocking" else "queue"
        kinds.add(prefix)
        n = emit_graph(run, r, os.path.join(indir, "%s_%s.ndjson" % (prefix, name)))
        if n != r.generated - 1:
            raise Machinery("TLC %s printed %d transitions but generated %d states" % (r.label, n, r.generated))
    for name in negs:
        module, consts, inv = configs.NEG[name]
        text = configs.cfg_text(consts, [inv], [], emit=False)
        r = run.neg(module, "neg_" + name + ".cfg", cfg_text=text, label="neg:%s" % name)
    all_rejects = []
    for prefix in sorted(kinds):
        test = "^TestBlockingReplay$" if prefix == "blocking" else "^TestQueueReplay$"
        out, _ = run.go(test, env={"VERIF_IN": indir}, timeout=1500)
        reps = json.load(open(os.path.join(out, prefix + "_replay.json")))
        steps = conf = 0
        for rep in reps:
            run.extra.setdefault("replay", []).append({k: rep[k] for k in rep if k != "first_divergences"})
            steps += rep["steps_executed"]
            conf += rep["steps_conforming"]
            run.traces += rep["scenarios"]
            if rep.get("first_divergences"):
                run.extra.setdefault("divergences", []).extend(rep["first_divergences"][:3])
        run.extra["step_conformance"] = run.extra.get("step_conformance", [])
        run.extra["step_conformance"].append({"stack": prefix, "steps": steps, "conforming": conf})
        tp = os.path.join(out, prefix + "_trace.ndjson")
        rejects, total = validate_sharded(run, "WrapperTrace", "Wrapper_trace.cfg", tp)
        run.events += total
        # samples + violations
        if total:
            with open(tp) as f:
                head = [json.loads(next(f)) for _ in range(min(4, total))]
            run.sample({"recorded_trace_excerpt": head})
        handle_rejects(run, prop, rejects, tp, classes, prefix, all_rejects)
        if steps and conf * 2 < steps and not run.violations:
            raise Machinery("dead driver: only %d of %d replayed steps followed the model for %s" % (conf, steps, prefix))
    if random_n:
        wrapper_random(run, prop, classes, random_n, all_rejects)
    other = {}
    for rj in all_rejects:
        if rj["class"] not in classes:
            other[rj["class"]] = other.get(rj["class"], 0) + 1
    if other:
        run.extra["rejections_of_other_classes"] = other
    run.extra["rejection_classes_checked"] = sorted(classes)
    run.exhaustive = True
    run.assumptions += [
        "exhaustive within the stated constants only (2-4 processes, limit 1-2, backlog <= 3, a few ticks)",
        "schedule points exist only at the gates (delegate Acquire entry/exit, delegate completion exit, queue.afterPush, block.childStart); each gate-to-gate segment runs alone",
        "virtual clock of testing/synctest: timers are exact and fire as soon as they are due",
    ]


LIVE = {n: ["TerminalAllServed"] for n in ("b3f", "b4", "q4", "q4l", "q3n")}


def c10(run):
    th = run.tier == "thorough"
    names = ["b3", "b3f", "d2", "q2", "q3s"] + (["b3p", "b3l2", "d3", "d3f", "q3", "q3l", "q3n", "b4", "q4", "q4t"] if th else [])
    wrapper_pipeline(run, "C10", names, ["b3-asdelivered-lostwake", "b3f-asdelivered-lostwake", "q3-asdelivered-lostwake", "q3-unbuffered-lostwake"],
                     {"lostwake"}, random_n=2000 if th else 300, extra_invs=LIVE)


def c11(run):
    th = run.tier == "thorough"
    names = ["q3", "q3l"] + (["q4", "q4l", "q3n", "q4t"] if th else [])
    wrapper_pipeline(run, "C11", names, [], {"order"}, random_n=4000 if th else 800)


def c12(run):
    th = run.tier == "thorough"
    names = ["q2", "q3s", "q3"] + (["q3l", "q4t", "q4", "q3n"] if th else [])
    wrapper_pipeline(run, "C12", names, ["q3-asdelivered-backlog"], {"backlog"}, random_n=3000 if th else 500)


def c13(run):
    th = run.tier == "thorough"
    names = ["b2c", "d2", "q2", "q3s", "d3"] + (["b3p", "d3f", "q3", "q4t", "b3"] if th else [])
    wrapper_pipeline(run, "C13", names, ["d3-asdelivered-deadline"], {"bound", "early"}, random_n=3000 if th else 500)


def c19(run):
    th = run.tier == "thorough"
    names = ["b3f", "q3n", "b3l2"] + (["b4", "q4", "q4l", "q4t", "q3", "q3l"] if th else [])
    wrapper_pipeline(run, "C19", names, [], {"gate", "starved", "lostwake"}, random_n=4000 if th else 800, extra_invs=LIVE)


# ------------------------------------------------------------------------------ C03
def partition_pipeline(run, prop, classify):
    """Shared by C03 (admission/bins) - the same machinery also yields the share observations of C05."""
    th = run.tier == "thorough"
    # 1. design level: the contract's consequences in every reachable state (small constants)
    suffix = "_th" if th else ""
    for kind in ("lookup", "predicate"):
        run.mc("PartitionMC", "Partition_mc_%s%s.cfg" % (kind, suffix), coverage=th)
    run.neg("PartitionMC", "Partition_neg_unknown.cfg")
    run.neg("PartitionMC", "Partition_neg_add.cfg")
    # 2. model -> code: every transition of the state graph on the real strategies
    indir = os.path.join(run.scratch, "in")
    os.makedirs(indir, exist_ok=True)
    for kind in ("lookup", "predicate"):
        r = run.tlc("PartitionMC", "Partition_gen_%s%s.cfg" % (kind, suffix), workers=1, label="gen:" + kind)
        if r.error or not r.ok:
            raise Machinery("gen %s: %s %s\n%s" % (kind, r.error, r.violation, r.raw[-2000:]))
        emit_graph(run, r, os.path.join(indir, "partition_%s.ndjson" % kind))
    out, _ = run.go("^TestPartitionReplay$", env={"VERIF_IN": indir})
    exhaustive = True
    for kind in ("lookup", "predicate"):
        rep = json.load(open(os.path.join(out, "replay_%s.json" % kind)))
        for m in graph_report(run, prop, rep, "Partition/" + kind):
            sig = classify(kind, m)
            run.report("%s strategy: after %s the real strategy returned %s / state %s, the contract fixes %s / %s" % (
                kind, json.dumps(m["op"]), m["got_res"], m["got_obs"], m["exp_res"], m["exp_obs"]),
                {"kind": kind, "mismatch": m, "rerun": "bin/check %s" % prop}, sig)
        exhaustive = exhaustive and rep["edges_unreachable"] == 0
    run.exhaustive = exhaustive
    # 3. code -> model: random long histories with large limits, dyadic fractions, dynamic partitions
    n = 2000 if th else 200
    out, _ = run.go("^TestPartitionRandom$", env={"VERIF_N": n})
    tp = os.path.join(out, "partition_trace.ndjson")
    rows = vlib.read_ndjson(tp)
    rejects = validate_trace(run, "PartitionTrace", "Partition_trace.cfg", tp, len(rows))
    ntr = len([x for x in rows if x["ev"] == "Reset"])
    run.traces += ntr
    run.events += len(rows)
    run.sample({"trace_excerpt": rows[:4]})
    for rj in rejects:
        tr = [x for x in rows if x["trace"] == rj["trace"]]
        upto = [x for x in tr][: 1 + sum(1 for x in rows[: rj["line"]] if x["trace"] == rj["trace"])]
        sig = classify(upto[0]["cfg"]["kind"], {"op": rj.get("op"), "exp_res": json.dumps(rj["expected"].get("res")) if isinstance(rj["expected"], dict) else "", "trace": True, "why": rj["why"]})
        run.report("recorded history %d rejected by Partition contract at line %d (%s): expected %s, logged %s" % (
            rj["trace"], rj["line"], rj["why"], json.dumps(rj["expected"]), json.dumps(rj["logged"])),
            {"trace": upto, "reject": rj, "rerun": "VERIF_SEED=%d bin/check %s" % (run.seed, prop)}, sig)
    run.assumptions += [
        "TLC explores the contract for 3 partition objects, fractions in quarters, limits {1,2,4}, at most %d outstanding tokens; every transition of that graph is executed on the real strategies" % (7 if th else 5),
        "random histories use dyadic fractions (k/16) so that Go's float product limit*percent is exact",
        "calls are sequential in these drivers (the strategies serialise all calls behind one mutex)",
    ]


def c03(run):
    def classify(kind, m):
        return {"kind": kind, "op": (m.get("op") or {}).get("op") if isinstance(m.get("op"), dict) else None}
    partition_pipeline(run, "C03", classify)


CHECKS = {
    "C03": c03,
    "C10": c10,
    "C11": c11,
    "C12": c12,
    "C13": c13,
    "C19": c19,
}
