INIT Init
NEXT Next
CONSTRAINT Mark
POSTCONDITION Report
CHECK_DEADLOCK FALSE
