package harness

import (
	"path/filepath"
	"sync"
	"testing"
	"time"
)

type raceSample struct {
	Rtt      int64 `json:"rtt"`
	Inflight int   `json:"inflight"`
	Drop     bool  `json:"drop"`
}

// noProbe takes the baseline reset out of the random jitter's hands so that three identically configured
// instances stay comparable.
func (s *algoSUT) noProbe() {
	if s.vegas != nil {
		s.vegas.VerifSetProbeJitter(1e6)
	}
	if s.grad != nil {
		s.grad.VerifSetResetCounter(1 << 30)
	}
}

// TestSampleRace runs, in real time, two OnSample calls of one limit algorithm at once: the first is parked
// while it emits its metrics, the second is started meanwhile (bounded wait: on this tree it blocks on the
// algorithm's mutex), then the first is let go.  The estimate after both equals what one of the two serial orders
// yields on identically prepared twins (C06, C07: every update is an atomic step of the contract).
func TestSampleRace(t *testing.T) {
	w := newNdWriter(t, filepath.Join(outDir(t), "race_trace.ndjson"))
	defer w.close()
	wait := 15 * time.Millisecond
	if thorough() {
		wait = 80 * time.Millisecond
	}
	overtook, k := 0, 0
	for _, algo := range []string{"aimd", "vegas", "gradient", "gradient2"} {
		for rep := 0; rep < envInt("VERIF_N", 8); rep++ {
			mk := func() *algoSUT { return newAlgoSUT(newRng(seed()+uint64(rep), uint64(1000+k)), algo, "none") }
			suts := [3]*algoSUT{mk(), mk(), mk()}
			r := newRng(seed()+uint64(rep), uint64(5000+k))
			base := int64(1000)
			var prime []raceSample
			for i, n := 0, r.between(1, 8); i < n; i++ {
				prime = append(prime, raceSample{Rtt: base * int64([]int{1, 1, 2, 4}[r.intn(4)]), Inflight: -1, Drop: r.chance(1, 8)})
			}
			for _, s := range suts {
				s.noProbe()
				for _, p := range prime {
					s.outer.OnSample(0, p.Rtt, s.outer.EstimatedLimit()+1, p.Drop)
					s.noProbe()
				}
			}
			e := suts[0].outer.EstimatedLimit()
			pick := func() raceSample {
				x := raceSample{Rtt: base * int64([]int{1, 1, 2, 8}[r.intn(4)]), Inflight: []int{e, e + 1, e + 1, e / 2, 0}[r.intn(5)]}
				x.Drop = rep%2 == 1 && r.chance(1, 2)
				return x
			}
			a, b := pick(), pick()
			if rep%4 == 0 {
				a.Inflight, b.Inflight = e, e // both saturated exactly at the limit
			}
			var mu sync.Mutex
			first := true
			parked, resume := make(chan struct{}), make(chan struct{})
			suts[0].reg.Park = func() {
				mu.Lock()
				f := first
				first = false
				mu.Unlock()
				if f {
					close(parked)
					<-resume
				}
			}
			doneA, doneB := make(chan struct{}), make(chan struct{})
			go func() { suts[0].outer.OnSample(0, a.Rtt, a.Inflight, a.Drop); close(doneA) }()
			select {
			case <-parked:
			case <-doneA:
			case <-time.After(time.Second):
				t.Fatalf("%s: first sample neither emitted nor returned", algo)
			}
			go func() { suts[0].outer.OnSample(0, b.Rtt, b.Inflight, b.Drop); close(doneB) }()
			select {
			case <-doneB:
				overtook++
			case <-time.After(wait):
			}
			mu.Lock()
			if first { // nothing parked: nothing to let go
				first = false
			}
			mu.Unlock()
			select {
			case <-resume:
			default:
				close(resume)
			}
			<-doneA
			<-doneB
			suts[1].outer.OnSample(0, a.Rtt, a.Inflight, a.Drop)
			suts[1].outer.OnSample(0, b.Rtt, b.Inflight, b.Drop)
			suts[2].outer.OnSample(0, b.Rtt, b.Inflight, b.Drop)
			suts[2].outer.OnSample(0, a.Rtt, a.Inflight, a.Drop)
			w.write(J{"ev": "Race", "trace": k, "i": 0, "algo": algo, "cfg": suts[0].cfg, "before": e, "a": a, "b": b, "anydrop": a.Drop || b.Drop,
				"est": suts[0].outer.EstimatedLimit(), "ab": suts[1].outer.EstimatedLimit(), "ba": suts[2].outer.EstimatedLimit()})
			k++
		}
	}
	writeJSON(t, filepath.Join(outDir(t), "race.json"), J{"scenarios": k, "second_sample_overtook_the_parked_one": overtook})
}
