--------------------------------- MODULE Limiter ---------------------------------
(* Sequential contract of limiter/default.go (DefaultLimiter + DefaultListener) over a        *)
(* scripted limit algorithm and any strategy kind: properties C09 (sampling windows), C05     *)
(* (enforcement follows the estimate), C02 (conservation at the limiter layer) and the         *)
(* emission half of C20.  Deterministic: Apply(cfg, s, op) -> [st, res].                      *)
(*                                                                                            *)
(* Time is the virtual clock in ticks (the harness uses 1 tick = 1 ms inside a synctest       *)
(* bubble, so RTTs are exact).                                                                *)
(* cfg:  minw, maxw     window period bounds (ticks)                                          *)
(*       threshold      minimum RTT (ticks) for a success to count                            *)
(*       wsize          window size (an update needs count > wsize)                           *)
(*       est0, script   initial estimate and the estimates the scripted limit reports after   *)
(*                      its 1st, 2nd, ... OnSample (the last one repeats)                     *)
(*       strat          "simple" | "precise" | "lookup" | "predicate";  part  Partition cfg   *)
(* s:    gauge (limiter in-flight), nsamp (OnSample calls so far), est, win = [min, count,    *)
(*       maxin, drop], rem (ticks until an update is allowed again: an update needs           *)
(*       now > nextUpdateTime, i.e. rem < 0; -1 = allowed), ls (outstanding listeners, oldest *)
(*       first: [age, inat, bin]; time is kept relative so that the state space is finite),   *)
(*       strat state: cnt = [limit, busy] or the Partition state ps                           *)
EXTENDS Partition

Inf == -1   \* "no RTT yet"
Min(a, b) == IF a < b THEN a ELSE b
MinRtt(a, b) == IF a = Inf THEN b ELSE IF b = Inf THEN a ELSE Min(a, b)

EmptyWin == [min |-> Inf, count |-> 0, maxin |-> 0, drop |-> FALSE]

Partitioned(cfg) == cfg.strat \in {"lookup", "predicate"}

EstAfter(cfg, n) ==   \* estimate reported after n OnSample calls
  IF n = 0 THEN cfg.est0
  ELSE IF n <= Len(cfg.script) THEN cfg.script[n] ELSE cfg.script[Len(cfg.script)]

InitL(cfg) ==
  [gauge |-> 0, nsamp |-> 0, est |-> cfg.est0, moved |-> FALSE, win |-> EmptyWin, rem |-> cfg.rem0, ls |-> <<>>,
   cnt |-> [limit |-> Max(1, cfg.est0), busy |-> 0],
   ps |-> IF Partitioned(cfg) THEN SetLimit(cfg.part, InitState(cfg.part), cfg.est0).st ELSE [limit |-> 0]]

StratLimit(cfg, s) == IF Partitioned(cfg) THEN s.ps.limit ELSE s.cnt.limit
StratBusy(cfg, s) == IF Partitioned(cfg) THEN s.ps.busy ELSE s.cnt.busy

(* ---- Acquire -------------------------------------------------------------------------- *)
Acquire(cfg, s, key) ==
  IF Partitioned(cfg)
  THEN LET r == Try(cfg.part, s.ps, key) IN
       IF r.res.ok
       THEN [st |-> [s EXCEPT !.ps = r.st, !.gauge = @ + 1,
                              !.ls = Append(@, [age |-> 0, inat |-> s.gauge + 1, bin |-> r.res.bin])],
             res |-> [ok |-> TRUE, samples |-> <<>>, inflight |-> -1]]
       ELSE [st |-> s, res |-> [ok |-> FALSE, samples |-> <<>>, inflight |-> -1]]
  ELSE IF s.cnt.busy < s.cnt.limit
       THEN [st |-> [s EXCEPT !.cnt.busy = @ + 1, !.gauge = @ + 1,
                              !.ls = Append(@, [age |-> 0, inat |-> s.gauge + 1, bin |-> ""])],
             \* C20: the strategy samples the in-flight count at the admission decision
             res |-> [ok |-> TRUE, samples |-> <<>>, inflight |-> s.cnt.busy + 1]]
       ELSE [st |-> s, res |-> [ok |-> FALSE, samples |-> <<>>, inflight |-> s.cnt.busy]]

(* ---- window fold and close rule --------------------------------------------------------- *)
AddSample(w, rtt, inat) ==
  [w EXCEPT !.min = MinRtt(@, rtt), !.count = @ + 1, !.maxin = Max(@, inat)]
AddDropped(w, inat) == [w EXCEPT !.maxin = Max(@, inat), !.drop = TRUE]

Ready(cfg, w) == w.min # Inf /\ w.count > cfg.wsize

RemoveAt(q, i) == [j \in 1..(Len(q) - 1) |-> IF j < i THEN q[j] ELSE q[j + 1]]

ReleaseTok(cfg, s, i) ==
  LET s1 == [s EXCEPT !.gauge = @ - 1, !.ls = RemoveAt(@, i)] IN
  IF Partitioned(cfg) THEN [s1 EXCEPT !.ps = Release(cfg.part, s.ps, s.ls[i].bin).st]
  ELSE [s1 EXCEPT !.cnt.busy = @ - 1]

(* the window closes: the algorithm sees it once, enforcement follows its new estimate *)
(* PanicMark in the script: the algorithm takes the sample and then faults (panics); the completion's caller recovers and   *)
(* goes on using the limiter.  The window has been handed over all the same - once: it is closed, the period runs; the   *)
(* estimate and the limit in force stay as they were.                                                                    *)
PanicMark == -7777

Update(cfg, s, w) ==
  IF s.rem < 0 /\ Ready(cfg, w) /\ s.nsamp + 1 <= Len(cfg.script) /\ cfg.script[s.nsamp + 1] = PanicMark
  THEN [st |-> [s EXCEPT !.win = EmptyWin, !.nsamp = @ + 1, !.rem = Min(Max(2 * w.min, cfg.minw), cfg.maxw)],
        samples |-> <<[rtt |-> w.min, inflight |-> w.maxin, drop |-> w.drop]>>]
  ELSE IF s.rem < 0 /\ Ready(cfg, w)
  THEN LET n == s.nsamp + 1
           \* once its script is used up the scripted algorithm's OnSample leaves the estimate alone (like a settable
           \* limit): the estimate is then whatever it was moved to from outside (op "ext")
           e == IF n <= Len(cfg.script) THEN cfg.script[n] ELSE s.est
           s1 == [s EXCEPT !.win = EmptyWin, !.nsamp = n, !.est = e, !.moved = FALSE,
                           !.rem = Min(Max(2 * w.min, cfg.minw), cfg.maxw)]
       IN [st |-> IF Partitioned(cfg) THEN [s1 EXCEPT !.ps = SetLimit(cfg.part, s.ps, e).st]
                  ELSE [s1 EXCEPT !.cnt.limit = Max(1, e)],
           samples |-> <<[rtt |-> w.min, inflight |-> w.maxin, drop |-> w.drop]>>]
  ELSE [st |-> [s EXCEPT !.win = w], samples |-> <<>>]

Complete(cfg, s, i, outcome) ==
  LET l == s.ls[i]
      s1 == ReleaseTok(cfg, s, i)
      rtt == l.age
  IN CASE outcome = "ignore" -> [st |-> s1, res |-> [ok |-> TRUE, samples |-> <<>>, inflight |-> -1]]
       [] outcome = "success" ->
            IF rtt < cfg.threshold
            THEN [st |-> s1, res |-> [ok |-> TRUE, samples |-> <<>>, inflight |-> -1]]
            ELSE LET u == Update(cfg, s1, AddSample(s1.win, rtt, l.inat)) IN
                 [st |-> u.st, res |-> [ok |-> TRUE, samples |-> u.samples, inflight |-> -1]]
       [] outcome = "dropped" ->
            LET u == Update(cfg, s1, AddDropped(s1.win, l.inat)) IN
            [st |-> u.st, res |-> [ok |-> TRUE, samples |-> u.samples, inflight |-> -1]]

(* A burst: several outstanding calls complete at once, from different goroutines.  Every completion is one atomic  *)
(* fold under the limiter's mutex, so - as long as the window cannot become ready in mid-burst (EnabledL), which is    *)
(* where the order would matter - the outcome is that of completing them one after the other: no completion is lost, *)
(* none is folded twice.  items[k].i indexes the outstanding calls left after the first k-1 items.                    *)
RECURSIVE BurstFrom(_, _, _, _)
BurstFrom(cfg, s, items, k) ==
  IF k > Len(items) THEN s ELSE BurstFrom(cfg, Complete(cfg, s, items[k].i, items[k].outcome).st, items, k + 1)

ApplyL(cfg, s, op) ==
  CASE op.op = "acq" -> Acquire(cfg, s, op.key)
    [] op.op = "adv" -> [st |-> [s EXCEPT !.rem = Max(-1, @ - op.d),
                                          !.ls = [j \in 1..Len(s.ls) |-> [s.ls[j] EXCEPT !.age = @ + op.d]]],
                         res |-> [ok |-> TRUE, samples |-> <<>>, inflight |-> -1]]
    [] op.op = "comp" -> Complete(cfg, s, op.i, op.outcome)
    \* the algorithm's estimate moves without a sample of this limiter (an explicit set, a limit shared with another
    \* limiter): nothing is enforced yet - the next sample-driven update must pick it up (C05)
    [] op.op = "burst" -> [st |-> BurstFrom(cfg, s, op.items, 1), res |-> [ok |-> TRUE, samples |-> <<>>, inflight |-> -1]]
    [] op.op = "ext" -> [st |-> [s EXCEPT !.est = op.v, !.moved = TRUE],
                         res |-> [ok |-> TRUE, samples |-> <<>>, inflight |-> -1]]

EnabledL(cfg, s, op) ==
  IF op.op = "comp" THEN op.i \in 1..Len(s.ls)
  ELSE IF op.op = "burst"
       THEN /\ Len(op.items) <= Len(s.ls)
            /\ \A k \in 1..Len(op.items) : op.items[k].i \in 1..(Len(s.ls) - (k - 1))
            /\ s.win.count + Len(op.items) <= cfg.wsize
       ELSE TRUE

(* what the harness reads back after each call *)
ObsL(cfg, s) ==
  [gauge |-> s.gauge, busy |-> StratBusy(cfg, s), limit |-> StratLimit(cfg, s), est |-> s.est,
   nsamp |-> s.nsamp,
   glimit |-> StratLimit(cfg, s),   \* C20: the "limit" gauge registered by the strategy reports the enforced limit
   bl |-> IF Partitioned(cfg) THEN [o \in Range(s.ps.reg) |-> s.ps.ol[o]] ELSE <<>>]

(* ---- consequences checked in every reachable state ------------------------------------- *)
Outstanding(s) == Len(s.ls)
InvConserve(cfg, s) == s.gauge = Outstanding(s) /\ StratBusy(cfg, s) = Outstanding(s)
InvEnforce(cfg, s) ==
  /\ ~s.moved => StratLimit(cfg, s) = Max(1, s.est)
  /\ Partitioned(cfg) => SharesCurrent(cfg.part, s.ps)
InvWindow(cfg, s) == s.win.count > 0 => s.win.min # Inf
=================================================================================
