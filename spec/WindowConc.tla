------------------------------- MODULE WindowConc -------------------------------
(* Implementation-shaped model of the sampling window of limiter/default.go under concurrent      *)
(* completions (C09: "the values it receives are exactly the fold of the qualifying completions   *)
(* since the previous update", for every schedule).  A completion is two critical sections of the *)
(* limiter's mutex with nothing held in between:                                                   *)
(*   Fold(p)  updateAndGetSample: the window is replaced by window + p's sample; the call keeps    *)
(*            the resulting window as its snapshot (schedule point default.afterFold follows)      *)
(*   Upd(p)   updateLimit: if p's end time has passed nextUpdateTime and the window is ready, the  *)
(*            window is handed to the algorithm, reset, and nextUpdateTime moves                   *)
(* Reread selects which window Upd(p) judges and hands over:                                       *)
(*   FALSE    p's snapshot - as delivered: a completion folded by another call between Fold(p) and *)
(*            Upd(p) is in the live window that Upd(p) throws away, and in no window ever handed   *)
(*            over (NoLoss is violated; schedule: Fold(a), Fold(b), Upd(a))                        *)
(*   TRUE     the live window, read under the same lock that resets it (the repair)                *)
(* Successful completions take their end time before the fold, dropped ones at the update (as the  *)
(* code does).  The window starts with Pre samples folded sequentially beforehand (RTT PreRtt,     *)
(* in-flight 1): the code's minimum window size is 10 and three concurrent calls suffice.          *)
(* The harness drives a real DefaultLimiter through every edge of this graph (TestWindowConc):     *)
(* calls are parked at default.afterFold, the clock is the bubble's.                               *)
EXTENDS Integers, Sequences, FiniteSets, TLC, Json

CONSTANTS
  P,          \* completers; p's in-flight at acquire is Inat[p] (acquired in this order at time 0)
  Dropped,    \* the completers whose outcome is "dropped"
  WSize, Pre, PreRtt,
  MinW, MaxW,
  MaxClock,
  Reread,
  Emit

Inat == [p \in P |-> CHOOSE n \in 1..Cardinality(P) : Cardinality({q \in P : q <= p}) = n]   \* P is a set of integers
Inf == -1
MinRtt(a, b) == IF a = Inf THEN b ELSE IF b = Inf THEN a ELSE IF a < b THEN a ELSE b
Max(a, b) == IF a > b THEN a ELSE b
Min(a, b) == IF a < b THEN a ELSE b

Empty == [count |-> 0, min |-> Inf, maxin |-> 0, drop |-> FALSE, ids |-> {}]
Win0 == [count |-> Pre, min |-> IF Pre > 0 THEN PreRtt ELSE Inf, maxin |-> IF Pre > 0 THEN 1 ELSE 0, drop |-> FALSE, ids |-> {}]

VARIABLES
  clock,
  pc,       \* "out" | "folded" | "done"
  endt,     \* end time of a successful completion (taken before its fold)
  win,      \* the live window; ids is history (which completers are in it)
  snap,     \* the window each folded call holds
  next,     \* nextUpdateTime
  reports   \* windows handed to the algorithm, in order
vars == <<clock, pc, endt, win, snap, next, reports>>

Ready(w) == w.min # Inf /\ w.count > WSize

Add(w, p) ==
  IF p \in Dropped
  THEN [w EXCEPT !.maxin = Max(@, Inat[p]), !.drop = TRUE, !.ids = @ \cup {p}]
  ELSE [w EXCEPT !.count = @ + 1, !.min = MinRtt(@, clock), !.maxin = Max(@, Inat[p]), !.ids = @ \cup {p}]

Proj(w) == [count |-> w.count, min |-> w.min, maxin |-> w.maxin, drop |-> w.drop]
Sample(w) == [rtt |-> w.min, inflight |-> w.maxin, drop |-> w.drop]
Obs == [win |-> Proj(win), nrep |-> Len(reports)]
Key == [clock |-> clock, pc |-> pc, endt |-> endt, snap |-> [p \in P |-> Proj(snap[p])], next |-> next]
St == [o |-> Obs, k |-> Key]

Init ==
  /\ clock = 0 /\ pc = [p \in P |-> "out"] /\ endt = [p \in P |-> 0]
  /\ win = Win0 /\ snap = [p \in P |-> Empty] /\ next = -1 /\ reports = <<>>   \* nothing handed over yet: any end time passes
  /\ Emit => /\ PrintT(<<"C", ToJson([wsize |-> WSize, pre |-> Pre, prertt |-> PreRtt, minw |-> MinW, maxw |-> MaxW,
                                      n |-> Cardinality(P)])>>)
             /\ PrintT(<<"I", ToJson(St)>>)

Tick ==
  /\ clock < MaxClock
  /\ clock' = clock + 1
  /\ UNCHANGED <<pc, endt, win, snap, next, reports>>

Fold(p) ==
  /\ pc[p] = "out"
  /\ win' = Add(win, p)
  /\ snap' = [snap EXCEPT ![p] = Add(win, p)]
  /\ endt' = [endt EXCEPT ![p] = clock]
  /\ pc' = [pc EXCEPT ![p] = "folded"]
  /\ UNCHANGED <<clock, next, reports>>

Upd(p) ==
  /\ pc[p] = "folded"
  /\ pc' = [pc EXCEPT ![p] = "done"]
  /\ LET e == IF p \in Dropped THEN clock ELSE endt[p]
         cur == IF Reread THEN win ELSE snap[p]
     IN IF e > next /\ Ready(cur)
        THEN /\ reports' = Append(reports, cur)
             /\ win' = Empty
             /\ next' = e + Min(Max(2 * cur.min, MinW), MaxW)
        ELSE UNCHANGED <<reports, win, next>>
  /\ UNCHANGED <<clock, endt, snap>>

OpOf(a, p) == [op |-> a, p |-> p, outcome |-> IF p \in Dropped THEN "dropped" ELSE "success"]

Next ==
  \/ /\ Tick
     /\ Emit => PrintT(<<"T", ToJson([from |-> St, op |-> [op |-> "tick"], res |-> [samples |-> <<>>], to |-> St'])>>)
  \/ \E p \in P :
       \/ /\ Fold(p)
          /\ Emit => PrintT(<<"T", ToJson([from |-> St, op |-> OpOf("fold", p), res |-> [samples |-> <<>>], to |-> St'])>>)
       \/ /\ Upd(p)
          /\ Emit => PrintT(<<"T", ToJson([from |-> St, op |-> OpOf("upd", p),
                                           res |-> [samples |-> IF Len(reports') > Len(reports) THEN <<Sample(reports'[Len(reports')])>> ELSE <<>>],
                                           to |-> St'])>>)

Spec == Init /\ [][Next]_vars

Reported == UNION {reports[i].ids : i \in 1..Len(reports)}

(* every completion that has been folded is in the live window or in a window the algorithm has seen *)
NoLoss == \A p \in P : pc[p] # "out" => p \in win.ids \cup Reported
(* no completion is handed over twice *)
SeenOnce == \A i, j \in 1..Len(reports) : i < j => reports[i].ids \cap reports[j].ids = {}
(* only ready windows are handed over *)
OnlyReady == \A i \in 1..Len(reports) : Ready(reports[i])
(* the drop flag of a window handed over is set iff one of its completions was a drop *)
DropExact == \A i \in 1..Len(reports) : reports[i].drop <=> (reports[i].ids \cap Dropped # {})
=================================================================================
