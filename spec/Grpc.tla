----------------------------------- MODULE Grpc -----------------------------------
(* Contract of the gRPC interceptors (grpc/grpc_unary.go, grpc/grpc_streaming.go), property   *)
(* C14.  One intercepted operation is a deterministic function of its inputs:                 *)
(*   op.kind   "unaryServer" | "unaryClient" | "recv" | "send"                                *)
(*   op.grant  whether the limiter consulted grants                                           *)
(*   op.err    whether the wrapped call (handler / invoker / stream operation) fails          *)
(*   op.cls    what the custom response classifier answers ("success" | "ignore" | "dropped") *)
(*   op.ctx    what becomes of the call's context meanwhile (live | cancelled | expired): the   *)
(*             outcome is the classifier's whatever the context says                          *)
(*   cfg.custom    custom response classifiers installed (else the defaults: error -> dropped)*)
(*   cfg.customle  custom limit-exceeded classifier installed: it chooses the status code     *)
(*                 op.lecode per call (from the request); the default answers                 *)
(*                 ResourceExhausted                                                          *)
(* The observable: which limiter was asked, whether the wrapped call ran, which listener      *)
(* method was called on which limiter's token (exactly once), what was returned.              *)
EXTENDS Integers, Sequences

Kinds == {"unaryServer", "unaryClient", "recv", "send"}

LimiterFor(kind) == CASE kind = "recv" -> "recv" [] kind = "send" -> "send" [] OTHER -> "main"

Outcome(cfg, op) ==
  IF op.kind \in {"recv", "send"} /\ ~op.err THEN "success"   \* a stream operation that returns nil
  ELSE IF cfg.custom THEN op.cls
  ELSE IF op.err THEN "dropped" ELSE "success"

ApplyG(cfg, op) ==
  LET lim == LimiterFor(op.kind) IN
  IF op.grant
  THEN [asked |-> <<lim>>, ran |-> 1,
        completed |-> <<[lim |-> lim, outcome |-> Outcome(cfg, op)]>>,
        code |-> IF op.err THEN "inner" ELSE "OK", same |-> TRUE]
  ELSE [asked |-> <<lim>>, ran |-> 0, completed |-> <<>>,
        code |-> IF cfg.customle THEN op.lecode ELSE "ResourceExhausted", same |-> FALSE]

(* Two interceptors of this package chained (a server-wide limiter around a per-service one, say): each layer is an   *)
(* interceptor of its own - the outer layer gates on its own limiter (names "o.main", "o.recv", "o.send") before the *)
(* inner layer is entered at all, and completes its token after the inner layer has returned, classifying what the  *)
(* inner layer returned (its limit-exceeded status is an error like any other).  op.ogrant: the outer limiter grants.*)
OuterErr(op) == ~op.grant \/ op.err
OuterOutcome(cfg, op) ==
  IF op.kind \in {"recv", "send"} /\ ~OuterErr(op) THEN "success"
  ELSE IF cfg.custom THEN op.cls
  ELSE IF OuterErr(op) THEN "dropped" ELSE "success"

ChainG(cfg, op) ==
  LET olim == "o." \o LimiterFor(op.kind) IN
  IF ~op.ogrant
  THEN [asked |-> <<olim>>, ran |-> 0, completed |-> <<>>,
        code |-> IF cfg.customle THEN op.lecode ELSE "ResourceExhausted", same |-> FALSE]
  ELSE LET r == ApplyG(cfg, op) IN
       [asked |-> <<olim>> \o r.asked, ran |-> r.ran,
        completed |-> r.completed \o <<[lim |-> olim, outcome |-> OuterOutcome(cfg, op)]>>,
        code |-> r.code, same |-> r.same]
=================================================================================
