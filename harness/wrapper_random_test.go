//go:build verif

package harness

import (
	"context"
	"fmt"
	"path/filepath"
	"testing"
	"testing/synctest"
	"time"

	"github.com/platinummonkey/go-concurrency-limits/core"
	"github.com/platinummonkey/go-concurrency-limits/limiter"
	"github.com/platinummonkey/go-concurrency-limits/patterns/pool"
)

// wrapCfg is the configuration record of a free-running wrapper scenario (contract WrapperTrace).
type wrapCfg struct {
	Kind      string   `json:"kind"`
	Ctor      string   `json:"ctor"`
	Limit     int      `json:"limit"`
	Poll      int      `json:"poll"`
	Deadline  int      `json:"deadline"`
	QMax      int      `json:"qmax"`
	QTimeout  int      `json:"qtimeout"`
	EvictCtx  bool     `json:"evictctx"`
	Ordering  string   `json:"ordering"`
	Expect    string   `json:"expect"`
	Procs     []string `json:"procs"`
	Blackbox  bool     `json:"blackbox"`
	AllServed bool     `json:"allserved"`
	// a cancelled caller that nothing holds at a gate must have returned when the step has settled, whatever else is
	// still in progress (real-time scenarios with a completion parked in mid-release)
	PromptCancel bool `json:"promptcancel"`
	// every caller seen blocked is asleep in the backlog (the callers arrived one after the other, each settled): a caller
	// must not go to sleep in a step at whose start the backlog held its maximum of blocked callers
	StrictFull bool `json:"strictfull"`
}

type ctorCase struct {
	name     string
	kind     string // queue | blocking | deadline
	expect   string
	blackbox bool
	// build returns the limiter; qmax/to are the requested values (0 = library default), and the
	// effective values the contract must use are returned.
	build func(gl core.Limiter, lim, qmax, to int, evict bool, reg *RecordingRegistry, t0 time.Time) (core.Limiter, int, int, bool)
}

type sharedCtxKey struct{}

func ticks(n int) time.Duration { return time.Duration(n) * tickDur }

func effQ(qmax, to int) (int, int) {
	if qmax <= 0 {
		qmax = 100
	}
	if to == 0 {
		to = 1000
	}
	if to < 0 {
		to = 0
	}
	return qmax, to
}

var ctorCases = []ctorCase{
	{"config-fifo", "queue", "fifo", false, func(gl core.Limiter, lim, qmax, to int, evict bool, reg *RecordingRegistry, t0 time.Time) (core.Limiter, int, int, bool) {
		q, t := effQ(qmax, to)
		return limiter.NewQueueBlockingLimiterFromConfig(gl, limiter.QueueLimiterConfig{Ordering: limiter.OrderingFIFO, MaxBacklogSize: qmax, MaxBacklogTimeout: ticks(to), BacklogEvictDoneCtx: evict, MetricRegistry: reg}), q, t, evict
	}},
	{"config-lifo", "queue", "lifo", false, func(gl core.Limiter, lim, qmax, to int, evict bool, reg *RecordingRegistry, t0 time.Time) (core.Limiter, int, int, bool) {
		q, t := effQ(qmax, to)
		return limiter.NewQueueBlockingLimiterFromConfig(gl, limiter.QueueLimiterConfig{Ordering: limiter.OrderingLIFO, MaxBacklogSize: qmax, MaxBacklogTimeout: ticks(to), BacklogEvictDoneCtx: evict, MetricRegistry: reg}), q, t, evict
	}},
	{"config-default", "queue", "lifo", false, func(gl core.Limiter, lim, qmax, to int, evict bool, reg *RecordingRegistry, t0 time.Time) (core.Limiter, int, int, bool) {
		q, t := effQ(qmax, to)
		return limiter.NewQueueBlockingLimiterFromConfig(gl, limiter.QueueLimiterConfig{MaxBacklogSize: qmax, MaxBacklogTimeout: ticks(to), BacklogEvictDoneCtx: evict, MetricRegistry: reg}), q, t, evict
	}},
	{"NewFifoBlockingLimiter", "queue", "fifo", false, func(gl core.Limiter, lim, qmax, to int, evict bool, reg *RecordingRegistry, t0 time.Time) (core.Limiter, int, int, bool) {
		q, t := effQ(qmax, to)
		return limiter.NewFifoBlockingLimiter(gl, qmax, ticks(to)), q, t, false
	}},
	{"NewFifoBlockingLimiterWithDefaults", "queue", "fifo", false, func(gl core.Limiter, lim, qmax, to int, evict bool, reg *RecordingRegistry, t0 time.Time) (core.Limiter, int, int, bool) {
		return limiter.NewFifoBlockingLimiterWithDefaults(gl), 100, 1000, false
	}},
	{"NewLifoBlockingLimiter", "queue", "lifo", false, func(gl core.Limiter, lim, qmax, to int, evict bool, reg *RecordingRegistry, t0 time.Time) (core.Limiter, int, int, bool) {
		q, t := effQ(qmax, to)
		return limiter.NewLifoBlockingLimiter(gl, qmax, ticks(to), reg), q, t, false
	}},
	{"NewLifoBlockingLimiterWithDefaults", "queue", "lifo", false, func(gl core.Limiter, lim, qmax, to int, evict bool, reg *RecordingRegistry, t0 time.Time) (core.Limiter, int, int, bool) {
		return limiter.NewLifoBlockingLimiterWithDefaults(gl), 100, 1000, false
	}},
	{"NewQueueBlockingLimiterWithDefaults", "queue", "lifo", false, func(gl core.Limiter, lim, qmax, to int, evict bool, reg *RecordingRegistry, t0 time.Time) (core.Limiter, int, int, bool) {
		return limiter.NewQueueBlockingLimiterWithDefaults(gl), 100, 1000, false
	}},
	{"pool-fifo", "queue", "fifo", false, func(gl core.Limiter, lim, qmax, to int, evict bool, reg *RecordingRegistry, t0 time.Time) (core.Limiter, int, int, bool) {
		q, t := effQ(qmax, to)
		p, _ := pool.NewPool(gl, pool.OrderingFIFO, qmax, ticks(to), nil, reg)
		return p, q, t, false
	}},
	{"pool-lifo", "queue", "lifo", false, func(gl core.Limiter, lim, qmax, to int, evict bool, reg *RecordingRegistry, t0 time.Time) (core.Limiter, int, int, bool) {
		q, t := effQ(qmax, to)
		p, _ := pool.NewPool(gl, pool.OrderingLIFO, qmax, ticks(to), nil, reg)
		return p, q, t, false
	}},
	{"pool-random", "blocking", "", false, func(gl core.Limiter, lim, qmax, to int, evict bool, reg *RecordingRegistry, t0 time.Time) (core.Limiter, int, int, bool) {
		if to < 0 {
			to = 0
		}
		p, _ := pool.NewPool(gl, pool.OrderingRandom, qmax, ticks(to), nil, reg)
		return p, 0, to, false
	}},
	{"fixedpool-fifo", "queue", "fifo", true, func(gl core.Limiter, lim, qmax, to int, evict bool, reg *RecordingRegistry, t0 time.Time) (core.Limiter, int, int, bool) {
		q, t := effQ(qmax, to)
		p, _ := pool.NewFixedPool("verif", pool.OrderingFIFO, lim, -1, -1, -1, -1, qmax, ticks(to), nil, reg)
		return p, q, t, false
	}},
	{"fixedpool-lifo", "queue", "lifo", true, func(gl core.Limiter, lim, qmax, to int, evict bool, reg *RecordingRegistry, t0 time.Time) (core.Limiter, int, int, bool) {
		q, t := effQ(qmax, to)
		p, _ := pool.NewFixedPool("verif", pool.OrderingLIFO, lim, -1, -1, -1, -1, qmax, ticks(to), nil, reg)
		return p, q, t, false
	}},
	{"fixedpool-random", "blocking", "", true, func(gl core.Limiter, lim, qmax, to int, evict bool, reg *RecordingRegistry, t0 time.Time) (core.Limiter, int, int, bool) {
		if to < 0 {
			to = 0
		}
		p, _ := pool.NewFixedPool("verif", pool.OrderingRandom, lim, -1, -1, -1, -1, qmax, ticks(to), nil, reg)
		return p, 0, to, false
	}},
	{"blocking", "blocking", "", false, func(gl core.Limiter, lim, qmax, to int, evict bool, reg *RecordingRegistry, t0 time.Time) (core.Limiter, int, int, bool) {
		if to < 0 {
			to = 0
		}
		return limiter.NewBlockingLimiter(gl, ticks(to), nil), 0, to, false
	}},
	{"deadline", "deadline", "", false, func(gl core.Limiter, lim, qmax, to int, evict bool, reg *RecordingRegistry, t0 time.Time) (core.Limiter, int, int, bool) {
		if to <= 0 {
			to = 7
		}
		return limiter.NewDeadlineLimiter(gl, t0.Add(ticks(to)), nil), 0, to, false
	}},
	// a deadline that means "never": beyond what a Duration or a nanosecond count since 1970 can hold
	{"deadline-far", "deadline", "", false, func(gl core.Limiter, lim, qmax, to int, evict bool, reg *RecordingRegistry, t0 time.Time) (core.Limiter, int, int, bool) {
		far := []time.Time{time.Date(9999, 12, 31, 23, 59, 59, 0, time.UTC), time.Date(3000, 1, 1, 0, 0, 0, 0, time.UTC), time.Date(2263, 1, 1, 0, 0, 0, 0, time.UTC)}[(qmax+to+lim)%3]
		return limiter.NewDeadlineLimiter(gl, far, nil), 0, 1 << 30, false // (TLC integers are 32 bit)
	}},
}

// TestSubMilli runs queue limiters on a clock of 100 microsecond units (virtual): backlog time-outs that do not fall on
// whole milliseconds (4.4 ms), arrivals a millisecond apart, a release a few units before the next waiter's time-out. Who
// is still waiting is decided by the waiter's own timer, to the unit (C11: only callers still waiting are considered,
// and all of them).
func TestSubMilli(t *testing.T) {
	w := newNdWriter(t, filepath.Join(outDir(t), "submilli_trace.ndjson"))
	defer w.close()
	const unit = 100 * time.Microsecond
	k := 0
	for _, ord := range []string{"fifo", "lifo"} {
		for _, ctor := range []string{"config", "deprecated"} {
			for _, releaseAt := range []int{41, 43, 51, 53, 38} {
				k++
				kk := k
				synctest.Test(t, func(t *testing.T) {
					names := []string{"h", "w1", "w2", "w3"}
					c := newController()
					s := newScenario(t, c, names)
					s.tick = unit
					c.emit = s.ev
					limiter.VerifPoint = nil
					reg := newRecordingRegistry()
					dl, busy, err := newDelegate(1, true)
					if err != nil {
						t.Fatal(err)
					}
					gl := &GatedLimiter{c: c, inner: dl}
					o := limiter.OrderingFIFO
					if ord == "lifo" {
						o = limiter.OrderingLIFO
					}
					if ctor == "config" {
						s.lim = limiter.NewQueueBlockingLimiterFromConfig(gl, limiter.QueueLimiterConfig{Ordering: o, MaxBacklogSize: 8, MaxBacklogTimeout: 44 * unit, MetricRegistry: reg})
					} else if ord == "fifo" {
						s.lim = limiter.NewFifoBlockingLimiter(gl, 8, 44*unit)
					} else {
						s.lim = limiter.NewLifoBlockingLimiter(gl, 8, 44*unit, reg)
					}
					cfg := wrapCfg{Kind: "queue", Ctor: "submilli/" + ctor, Limit: 1, QMax: 8, QTimeout: 44, Ordering: ord, Expect: ord, Procs: names}
					s.extra = func() J {
						o := J{"busy": busy(), "gauge": int(dl.VerifInFlight()), "q": -1}
						if v, ok := reg.GaugeByID(core.MetricQueueSize); ok {
							o["q"] = v
						}
						return o
					}
					w.write(J{"ev": "Reset", "trace": kk, "cfg": cfg, "obs": s.observe()})
					i := 0
					do := func(st schedStep) {
						if err := s.apply(st); err != nil {
							return
						}
						i++
						w.write(J{"ev": "Step", "trace": kk, "i": i, "step": st, "evs": s.events(), "obs": s.observe()})
					}
					do(schedStep{A: "start", P: "h", Call: "acquire"})
					do(schedStep{A: "start", P: "w1", Call: "acquire"}) // time-out at 44
					do(schedStep{A: "tick", N: 10})
					do(schedStep{A: "start", P: "w2", Call: "acquire"}) // time-out at 54
					do(schedStep{A: "tick", N: 10})
					do(schedStep{A: "start", P: "w3", Call: "acquire"}) // time-out at 64
					do(schedStep{A: "tick", N: releaseAt - 20})
					do(schedStep{A: "start", P: "h", Call: "release", Outcome: "success"})
					do(schedStep{A: "tick", N: 30})
					for _, n := range names {
						if s.procs[n].state == "granted" {
							do(schedStep{A: "start", P: n, Call: "release", Outcome: "success"})
						}
					}
					do(schedStep{A: "tick", N: 60})
					w.write(J{"ev": "End", "trace": kk, "i": i + 1, "obs": s.observe()})
					s.cleanup()
				})
			}
		}
	}
}

// TestWrapperRandom runs seeded free-running scenarios (no gates: every step runs until the whole
// bubble is quiescent) against every way of constructing a blocking wrapper - configuration,
// defaults, deprecated constructors, pools - and records them for the contract WrapperTrace:
// arrival order fixed by quiescence between arrivals, releases, cancellations, time-outs, full
// backlogs, and "everyone is served" runs for the pools.
func TestWrapperRandom(t *testing.T) {
	n := envInt("VERIF_N", 300)
	w := newNdWriter(t, filepath.Join(outDir(t), "wrapper_trace.ndjson"))
	defer w.close()
	leaks := 0
	for k := 0; k < n; k++ {
		k := k
		func() {
			defer func() {
				if r := recover(); r != nil {
					leaks++
				}
			}()
			synctest.Test(t, func(t *testing.T) {
				r := newRng(seed(), uint64(k))
				cc := ctorCases[k%len(ctorCases)]
				lim := r.between(1, 3)
				class := []string{"order", "full", "served", "mixed"}[r.intn(4)]
				nproc := r.between(lim+2, lim+5)
				qmaxReq, toReq := 0, 0
				switch class {
				case "full":
					qmaxReq, toReq = r.between(1, 2), []int{0, 4, -1}[r.intn(3)]
				case "served":
					qmaxReq, toReq = []int{0, nproc}[r.intn(2)], []int{0, -1, 200}[r.intn(3)]
				case "order":
					qmaxReq, toReq = []int{0, 8}[r.intn(2)], []int{0, -1, 50}[r.intn(3)]
				default:
					qmaxReq, toReq = r.between(1, 4), r.between(2, 6)
				}
				// one scenario in three: every caller passes the same context value (one request context used for parallel
				// sub-calls, or context.Background()): a waiter is not identified by its context, so the delegate's calls cannot
				// be attributed - the run is judged like a black box, by who is granted and refused when; giving up is by
				// time-out only, and the waiters' time-outs are staggered
				sharedCtx := r.chance(1, 3)
				if sharedCtx && cc.kind == "queue" {
					class, qmaxReq, toReq = "mixed", 4, r.between(3, 6)
				}
				// now and then: the default backlog bound. A backlog size of zero or below asks for the default of 100: one
				// holder, a hundred callers queue up one after the other, the next ones are refused at once
				defaultBound := cc.kind == "queue" && !cc.blackbox && k%61 == 7
				if defaultBound {
					sharedCtx, class, lim, nproc = false, "full", 1, 103
					qmaxReq, toReq = []int{0, -1, -100, -1 << 40}[r.intn(4)], -1
				}
				evict := r.chance(1, 2)
				var names []string
				for i := 1; i <= nproc; i++ {
					names = append(names, fmt.Sprintf("p%d", i))
				}
				c := newController() // no gate enabled: free running
				s := newScenario(t, c, names)
				c.emit = s.ev
				limiter.VerifPoint = nil
				reg := newRecordingRegistry()
				dl, busy, err := newDelegate(lim, true)
				if err != nil {
					t.Fatal(err)
				}
				var gl core.Limiter = &GatedLimiter{c: c, inner: dl}
				if sharedCtx {
					gl = dl
				}
				l, qmax, to, ev := cc.build(gl, lim, qmaxReq, toReq, evict, reg, s.t0)
				s.lim = l
				cfg := wrapCfg{Kind: cc.kind, Ctor: cc.name, Limit: lim, QMax: qmax, QTimeout: to, EvictCtx: ev, Ordering: cc.expect, Expect: cc.expect,
					Procs: names, Blackbox: cc.blackbox}
				if cc.kind == "blocking" {
					cfg.Poll = to
				}
				if cc.kind == "deadline" {
					cfg.Deadline = to
				}
				s.extra = func() J {
					o := J{"busy": busy(), "gauge": int(dl.VerifInFlight()), "q": -1}
					if cc.blackbox {
						o["busy"], o["gauge"] = -1, -1
					}
					if v, ok := reg.GaugeByID(core.MetricQueueSize); ok {
						o["q"] = v
					}
					return o
				}
				// "served": no cancellation, callers within limit + backlog, every holder releases well before any time-out
				canCancel := class != "served"
				if sharedCtx {
					shared := context.WithValue(context.Background(), sharedCtxKey{}, k)
					s.wrapCtx = func(context.Context) context.Context { return shared }
					canCancel = false
					cfg.Ctor += "/shared-context"
					cfg.Blackbox = true
				}
				if class == "served" && (cc.kind == "queue" || cc.kind == "blocking") && nproc <= lim+qmax && (to == 0 || to >= 100) {
					cfg.AllServed = true
				}
				if cc.kind == "blocking" && cfg.AllServed {
					cfg.AllServed = nproc <= lim+8
				}
				w.write(J{"ev": "Reset", "trace": k, "cfg": cfg, "obs": s.observe()})
				i := 0
				do := func(st schedStep) bool {
					if err := s.apply(st); err != nil {
						return false
					}
					i++
					w.write(J{"ev": "Step", "trace": k, "i": i, "step": st, "evs": s.events(), "obs": s.observe()})
					return true
				}
				next := 0
				arrive := func() bool {
					if next >= len(names) {
						return false
					}
					next++
					return do(schedStep{A: "start", P: names[next-1], Call: "acquire"})
				}
				holders := func() []string {
					var hs []string
					for _, nm := range names {
						if s.procs[nm].state == "granted" {
							hs = append(hs, nm)
						}
					}
					return hs
				}
				sleepers := func() []string {
					var ws []string
					for _, nm := range names {
						if s.procs[nm].state == "calling" {
							ws = append(ws, nm)
						}
					}
					return ws
				}
				// fill the limit, then let the waiters arrive one at a time
				initial := lim + r.between(1, nproc-lim)
				if class == "served" {
					initial = nproc
				}
				if sharedCtx && cc.kind == "queue" && to < 50 {
					// the limit is filled, then the waiters arrive a tick or two apart; time passes until the oldest has given up
					// with younger ones still waiting, and a holder completes
					for a := 0; a < lim; a++ {
						arrive()
					}
					for a := 0; a < 3 && next < len(names); a++ {
						arrive()
						if a < 2 {
							do(schedStep{A: "tick", N: r.between(1, 2)})
						}
					}
					for tk := 0; tk < to+1 && len(sleepers()) >= 3; tk++ {
						do(schedStep{A: "tick", N: 1})
					}
					if hs := holders(); len(hs) > 0 {
						do(schedStep{A: "start", P: hs[0], Call: "release", Outcome: r.pick([]string{"success", "ignore", "dropped"})})
					}
					initial = 0
				}
				if defaultBound {
					initial = nproc
				}
				for a := 0; a < initial; a++ {
					arrive()
				}
				outcomes := []string{"success", "ignore", "dropped"}
				for op := 0; op < 40; op++ {
					hs, ws := holders(), sleepers()
					if len(hs) == 0 && len(ws) == 0 && next >= len(names) {
						break
					}
					x := r.intn(100)
					switch {
					case x < 45 && len(hs) > 0:
						do(schedStep{A: "start", P: r.pick(hs), Call: "release", Outcome: r.pick(outcomes)})
					case x < 60 && next < len(names):
						if canCancel && (r.chance(1, 4) || (ev && cc.kind == "queue" && r.chance(1, 2))) {
							// the caller's context is done before it calls Acquire at all
							do(schedStep{A: "cancel", P: names[next]})
						}
						arrive()
					case x < 72 && canCancel && len(ws) > 0:
						do(schedStep{A: "cancel", P: r.pick(ws)})
					case x < 90 && class != "served":
						do(schedStep{A: "tick", N: r.between(1, 3)})
					case class == "served":
						do(schedStep{A: "tick", N: 1})
					default:
						if len(hs) > 0 {
							do(schedStep{A: "start", P: r.pick(hs), Call: "release", Outcome: r.pick(outcomes)})
						} else {
							do(schedStep{A: "tick", N: 1})
						}
					}
				}
				if cfg.AllServed {
					// finish the run: release until nobody is left
					for g := 0; g < 4*nproc; g++ {
						if next < len(names) {
							arrive()
							continue
						}
						hs := holders()
						if len(hs) == 0 {
							break
						}
						do(schedStep{A: "start", P: hs[0], Call: "release", Outcome: "success"})
					}
				}
				w.write(J{"ev": "End", "trace": k, "i": i + 1, "obs": s.observe()})
				s.flush = func() {
					ctx, cancel := context.WithTimeout(context.Background(), time.Second)
					defer cancel()
					if lst, ok := s.lim.Acquire(ctx); ok && lst != nil {
						lst.OnIgnore()
					}
				}
				s.cleanup()
			})
		}()
	}
	writeJSON(t, filepath.Join(outDir(t), "wrapper_random.json"), J{"scenarios": n, "bubbles_with_leaked_goroutines": leaks})
}
