//go:build verif

package harness

import (
	"context"
	"fmt"
	"path/filepath"
	"sync"
	"testing"
	"time"

	"github.com/platinummonkey/go-concurrency-limits/core"
	"github.com/platinummonkey/go-concurrency-limits/limiter"
	"github.com/platinummonkey/go-concurrency-limits/strategy"
)

// strategyLimiter presents a bare strategy as a core.Limiter (the precise strategy is documented
// as usable directly).
type strategyLimiter struct{ s core.Strategy }

type tokenListener struct{ t core.StrategyToken }

func (l *tokenListener) OnSuccess() { l.t.Release() }
func (l *tokenListener) OnIgnore()  { l.t.Release() }
func (l *tokenListener) OnDropped() { l.t.Release() }

func (s *strategyLimiter) Acquire(ctx context.Context) (core.Listener, bool) {
	t, ok := s.s.TryAcquire(ctx)
	if !ok || t == nil || !t.IsAcquired() {
		return nil, false
	}
	return &tokenListener{t}, true
}

// TestGateAttack realises, in real time, the attack schedule TLC finds for the weakened models
// (LimiterLock = FALSE / PreciseMutex = FALSE): one caller is parked between the strategy's
// limit check and its increment (verif hooks simple.afterCheck / precise.afterCheck), a second
// caller is started. On a tree where the lock really serialises the check-then-increment the second
// caller cannot arrive (it is blocked on the mutex) and the schedule is infeasible; where it can,
// the schedule continues and the recorded over-admission goes to the contract.
func TestGateAttack(t *testing.T) {
	w := newNdWriter(t, filepath.Join(outDir(t), "attack_trace.ndjson"))
	defer w.close()
	wait := 30 * time.Millisecond
	if thorough() {
		wait = 200 * time.Millisecond
	}
	type stack struct {
		name  string
		point string
		build func(lim int) (core.Limiter, func() int)
	}
	stacks := []stack{
		{"default+simple", "simple.afterCheck", func(lim int) (core.Limiter, func() int) {
			dl, busy, _ := newDelegate(lim, false)
			return dl, busy
		}},
		{"default+precise", "precise.afterCheck", func(lim int) (core.Limiter, func() int) {
			dl, busy, _ := newDelegate(lim, true)
			return dl, busy
		}},
		{"precise-direct", "precise.afterCheck", func(lim int) (core.Limiter, func() int) {
			s := strategy.NewPreciseStrategy(lim)
			return &strategyLimiter{s}, s.GetBusyCount
		}},
	}
	trace := 0
	feasible := 0
	for _, st := range stacks {
		for lim := 1; lim <= 3; lim++ {
			for round := 0; round < 3; round++ {
				lm, _ := st.build(lim)
				names := []string{"p1", "p2"}
				for i := 0; i < lim-1; i++ {
					names = append(names, fmt.Sprintf("h%d", i))
				}
				cfg := wrapCfg{Kind: "default", Ctor: st.name, Limit: lim, Procs: names, Blackbox: true}
				var mu sync.Mutex
				parked := map[string]chan struct{}{}
				cur := ""
				gate := func(point string) {
					if point != st.point {
						return
					}
					mu.Lock()
					who := cur
					if who == "" {
						mu.Unlock()
						return
					}
					ch := make(chan struct{})
					parked[who] = ch
					cur = ""
					mu.Unlock()
					<-ch
				}
				strategy.VerifPoint = gate
				limiter.VerifPoint = nil
				type ret struct {
					ok  bool
					nil bool
				}
				rets := map[string]chan ret{}
				i := 0
				obs := func(status map[string]string) J {
					procs := J{}
					kids := J{}
					for _, n := range names {
						procs[n] = status[n]
						kids[n] = false
					}
					return J{"t": 0, "busy": -1, "gauge": -1, "q": -1, "procs": procs, "kids": kids}
				}
				status := map[string]string{}
				for _, n := range names {
					status[n] = "idle"
				}
				w.write(J{"ev": "Reset", "trace": trace, "cfg": cfg, "obs": obs(status)})
				step := func(s schedStep, evs []J) {
					i++
					w.write(J{"ev": "Step", "trace": trace, "i": i, "step": s, "evs": evs, "obs": obs(status)})
				}
				// holders fill limit-1 tokens without gating
				for _, n := range names[2:] {
					l, ok := lm.Acquire(context.Background())
					status[n] = map[bool]string{true: "granted", false: "refused"}[ok]
					step(schedStep{A: "start", P: n, Call: "acquire"}, []J{{"k": "ret", "p": n, "ok": ok, "nil": l == nil, "t": 0}})
				}
				start := func(n string) {
					ch := make(chan ret, 1)
					rets[n] = ch
					mu.Lock()
					cur = n
					mu.Unlock()
					go func() {
						l, ok := lm.Acquire(context.Background())
						ch <- ret{ok, l == nil}
					}()
				}
				waitParkedOrRet := func(n string, d time.Duration) (string, *ret) {
					deadline := time.Now().Add(d)
					for time.Now().Before(deadline) {
						mu.Lock()
						_, p := parked[n]
						mu.Unlock()
						if p {
							return "parked", nil
						}
						select {
						case r := <-rets[n]:
							return "ret", &r
						default:
						}
						time.Sleep(200 * time.Microsecond)
					}
					return "none", nil
				}
				evRet := func(n string, r *ret) []J {
					status[n] = map[bool]string{true: "granted", false: "refused"}[r.ok]
					return []J{{"k": "ret", "p": n, "ok": r.ok, "nil": r.nil, "t": 0}}
				}
				start("p1")
				k1, r1 := waitParkedOrRet("p1", time.Second)
				if k1 == "ret" {
					step(schedStep{A: "start", P: "p1", Call: "acquire"}, evRet("p1", r1))
				} else {
					status["p1"] = "gate:" + st.point
					step(schedStep{A: "start", P: "p1", Call: "acquire"}, []J{})
				}
				start("p2")
				k2, r2 := waitParkedOrRet("p2", wait)
				switch k2 {
				case "ret":
					feasible++
					step(schedStep{A: "start", P: "p2", Call: "acquire"}, evRet("p2", r2))
				case "parked":
					feasible++
					status["p2"] = "gate:" + st.point
					step(schedStep{A: "start", P: "p2", Call: "acquire"}, []J{})
				default:
					status["p2"] = "blocked" // on the lock: the attack schedule is infeasible here
					step(schedStep{A: "start", P: "p2", Call: "acquire"}, []J{})
				}
				mu.Lock()
				cur = ""
				mu.Unlock()
				// pass p1, then p2
				for _, n := range []string{"p1", "p2"} {
					mu.Lock()
					ch, p := parked[n]
					delete(parked, n)
					mu.Unlock()
					if p {
						close(ch)
					}
					if status[n] == "granted" || status[n] == "refused" {
						continue
					}
					var r ret
					got := false
					deadline := time.After(2 * time.Second)
					for !got {
						select {
						case r = <-rets[n]:
							got = true
						case <-deadline:
							t.Fatalf("%s: %s never returned", st.name, n)
						default:
							// p2 may park at the hook after p1 has left it
							mu.Lock()
							ch2, p2 := parked[n]
							delete(parked, n)
							mu.Unlock()
							if p2 {
								close(ch2)
							}
							time.Sleep(100 * time.Microsecond)
						}
					}
					step(schedStep{A: "pass", P: n, Gate: st.point}, evRet(n, &r))
				}
				strategy.VerifPoint = nil
				w.write(J{"ev": "End", "trace": trace, "i": i + 1, "obs": obs(status)})
				trace++
			}
		}
	}
	writeJSON(t, filepath.Join(outDir(t), "attack.json"), J{"scenarios": trace, "second_caller_got_into_the_window": feasible})
}

// gateStrategy parks the first SetLimit call (inside the limiter's lock on this tree).
type gateStrategy struct {
	core.Strategy
	mu     sync.Mutex
	armed  bool
	parked chan struct{}
	resume chan struct{}
}

func (g *gateStrategy) SetLimit(v int) {
	g.mu.Lock()
	first := g.armed
	g.armed = false
	g.mu.Unlock()
	if first {
		close(g.parked)
		<-g.resume
	}
	g.Strategy.SetLimit(v)
}

// TestEnforceAttack realises, in real time, the interleaving in which two window-closing completions race
// for the enforcement update (C05 under concurrency): completion A has closed a window and is parked on
// its way into strategy.SetLimit(e1); the harness then tries to drive a whole further window through the
// limiter (12 acquire + complete). On a tree where the update runs under the limiter's lock those calls
// cannot proceed and nothing happens until A is resumed; where they can, completion B installs e2 and A's
// stale e1 lands last. Once everything is quiet the enforced limit must equal max(1, estimate).
func TestEnforceAttack(t *testing.T) {
	w := newNdWriter(t, filepath.Join(outDir(t), "enforce_trace.ndjson"))
	defer w.close()
	wait := 40 * time.Millisecond
	if thorough() {
		wait = 250 * time.Millisecond
	}
	trace := 0
	overtook, noUpdate := 0, 0
	for _, strat := range []string{"simple", "precise", "lookup"} {
		for rep := 0; rep < 3; rep++ {
			sl := &ScriptedLimit{est: 6, script: []int{4 + rep, 9, 2}}
			var inner core.Strategy
			var limitOf func() int
			var psut *partSUT
			switch strat {
			case "simple":
				x := strategy.NewSimpleStrategy(3)
				inner, limitOf = x, x.GetLimit
			case "precise":
				x := strategy.NewPreciseStrategy(3)
				inner, limitOf = x, x.GetLimit
			default:
				p, err := newPartSUT(partCfg{Kind: "lookup", Den: 16, Limit: 6, Objs: map[string]partObjCfg{"p0": {Name: "a", Num: 8, Match: []string{"a"}, Built: 1}}, Init: []string{"p0"},
					Variant: map[string]string{"unknown": "contract", "add": "contract"}})
				if err != nil {
					t.Fatal(err)
				}
				psut = p
				inner = p.strat()
				limitOf = func() int { l, _ := p.totals(); return l }
			}
			gs := &gateStrategy{Strategy: inner, parked: make(chan struct{}), resume: make(chan struct{})}
			dl, err := limiter.NewDefaultLimiter(sl, 1, 1, 0, 10, gs, nil, core.EmptyMetricRegistryInstance)
			if err != nil {
				t.Fatal(err)
			}
			gs.mu.Lock()
			gs.armed = true // the constructor's own SetLimit is over: park the next one
			gs.mu.Unlock()
			ctx := keyCtx("lookup", "a")
			cycle := func(n int) {
				for i := 0; i < n; i++ {
					l, ok := dl.Acquire(ctx)
					if !ok {
						return
					}
					time.Sleep(20 * time.Microsecond)
					l.OnSuccess()
				}
			}
			doneA := make(chan struct{})
			go func() { cycle(12); close(doneA) }()
			select {
			case <-gs.parked:
				doneB := make(chan struct{})
				go func() { cycle(14); close(doneB) }()
				select {
				case <-doneB:
					overtook++
				case <-time.After(wait):
				}
				close(gs.resume)
				<-doneA
				<-doneB
			case <-doneA:
				// the twelve completions never reached strategy.SetLimit (nothing to race with): what is enforced once quiet is
				// judged all the same
				noUpdate++
			case <-time.After(5 * time.Second):
				t.Fatalf("%s: the first cycle neither finished nor reached SetLimit", strat)
			}
			bl := J{}
			if psut != nil {
				bl["p0"] = psut.objLimit("p0")
			}
			w.write(J{"ev": "Quiet", "trace": trace, "strat": strat, "post": J{"limit": limitOf(), "est": sl.EstimatedLimit(), "bl": bl, "samples": len(sl.Samples)}})
			trace++
		}
	}
	writeJSON(t, filepath.Join(outDir(t), "enforce.json"), J{"scenarios": trace, "second_update_overtook_the_parked_one": overtook, "no_update_reached_the_strategy": noUpdate})
}
