----------------------------------- MODULE Notify -----------------------------------
(* Implementation-shaped model of "change the estimate, then tell the listeners" as the limit   *)
(* implementations do it (C16): several goroutines each install a value and notify one           *)
(* listener, which remembers the last value it was told.                                         *)
(*                                                                                               *)
(*   Variant = "atomic"        lock; store; notify; unlock      AIMD, Vegas, Gradient, Gradient2  *)
(*                                                              (OnSample) and the repaired       *)
(*                                                              SettableLimit.SetLimit            *)
(*   Variant = "storefirst"    store; lock; notify; unlock      SettableLimit.SetLimit as         *)
(*                                                              delivered (finding P17)           *)
(*   Variant = "notifyafter"   lock; store; unlock; notify      a limit that notifies after       *)
(*                                                              releasing its lock (seeded change *)
(*                                                              C16-aimd-notify-unlocked)         *)
(* The contract: once every call has returned, the last value delivered is the value stored.      *)
(* TLC shows it for "atomic" and finds the reordering for the other two; the harness realises      *)
(* the same races on the real objects (TestNotifyAttack, TestSettableRandom) and LimitTrace's      *)
(* Concurrent records judge them.                                                                 *)
EXTENDS Integers, FiniteSets, TLC

CONSTANTS Procs, Variant

NoProc == 0
VARIABLES pc, mu, value, last
vars == <<pc, mu, value, last>>

Val == [p \in Procs |-> p]   \* Procs is a set of positive integers: each goroutine installs its own number

Init == pc = [p \in Procs |-> "start"] /\ mu = NoProc /\ value = 0 /\ last = 0

Lock(p, from, to) == pc[p] = from /\ mu = NoProc /\ mu' = p /\ pc' = [pc EXCEPT ![p] = to] /\ UNCHANGED <<value, last>>
Unlock(p, from, to) == pc[p] = from /\ mu = p /\ mu' = NoProc /\ pc' = [pc EXCEPT ![p] = to] /\ UNCHANGED <<value, last>>
Store(p, from, to) == pc[p] = from /\ value' = Val[p] /\ pc' = [pc EXCEPT ![p] = to] /\ UNCHANGED <<mu, last>>
Tell(p, from, to) == pc[p] = from /\ last' = Val[p] /\ pc' = [pc EXCEPT ![p] = to] /\ UNCHANGED <<mu, value>>

Step(p) ==
  CASE Variant = "atomic" ->
         Lock(p, "start", "locked") \/ Store(p, "locked", "stored") \/ Tell(p, "stored", "told") \/ Unlock(p, "told", "done")
    [] Variant = "storefirst" ->
         Store(p, "start", "stored") \/ Lock(p, "stored", "locked") \/ Tell(p, "locked", "told") \/ Unlock(p, "told", "done")
    [] OTHER ->
         Lock(p, "start", "locked") \/ Store(p, "locked", "stored") \/ Unlock(p, "stored", "unlocked") \/ Tell(p, "unlocked", "done")

Next == \E p \in Procs : Step(p)
Spec == Init /\ [][Next]_vars

Quiet == \A p \in Procs : pc[p] = "done"
LastIsValue == Quiet => last = value
=================================================================================
