------------------------------- MODULE WrapperTrace -------------------------------
(* Contract (A) of the blocking wrappers - BlockingLimiter, DeadlineLimiter,                *)
(* QueueBlockingLimiter and the pools built from them - as a trace acceptor (code -> model). *)
(* The harness logs, for every scenario, a Reset line with the configuration and then one    *)
(* Step line per schedule step it executed on the real code: the step, the events that       *)
(* happened during it in order (delegate attempts, delegate completions, returns of          *)
(* Acquire), and the observation taken once every goroutine was parked or asleep.            *)
(*                                                                                           *)
(* The contract tracks only abstract state: which process holds a delegate token, which      *)
(* calls are open, who is cancelled, when a caller fell asleep.  It checks                   *)
(*   gate      every delegate attempt is granted iff tokens out < limit         (C01 C19)    *)
(*   conserve  a returned ok=true call holds exactly one token and a listener, a refused one *)
(*             holds none and a nil listener; busy and gauge equal the tokens out  (C02)     *)
(*   lostwake  in a stable state nobody sleeps while capacity is free              (C10)     *)
(*   order     a hand-off goes to the oldest / newest sleeper as configured        (C11)     *)
(*   backlog   reported queue size = number of sleepers; never above the maximum;  (C12)     *)
(*             a refusal at a full backlog takes no virtual time                             *)
(*   bound     in a stable state nobody sleeps at or past its bound (deadline,     (C13)     *)
(*             backlog timeout, cancellation)                                                *)
(*   early     a refusal needs a reason: cancellation, deadline reached, backlog   (C13)     *)
(*             full, timeout elapsed                                                         *)
(* A rejection prints a REJECT record with its class; "hard" rejections (the abstract state  *)
(* can no longer be trusted) skip the rest of the scenario, stable-state rejections do not.  *)
(* History flags (lw, ...) reproduce the signatures of the recorded findings so that the     *)
(* driver can tell a listed finding from a new violation.                                    *)
EXTENDS Integers, Sequences, FiniteSets, TLC, Json, IOUtils

Log == ndJsonDeserialize(IOEnv.VERIF_TRACE)

VARIABLES l, ok, cfg, st
vars == <<l, ok, cfg, st>>

Procs(c) == {c.procs[i] : i \in 1..Len(c.procs)}
InSeq(x, s) == \E i \in 1..Len(s) : s[i] = x

Sum(f, S) ==
  LET RECURSIVE SumR(_)
      SumR(T) == IF T = {} THEN 0 ELSE LET x == CHOOSE x \in T : TRUE IN f[x] + SumR(T \ {x})
  IN SumR(S)

(* tokens out at the delegate: held by a caller (tok) or acquired on a waiter's behalf by an  *)
(* unblocking completion and not yet accepted by it (transit)                                *)
Held(c, s) == Sum(s.tok, Procs(c)) + Sum(s.transit, Procs(c))

InitSt(c) ==
  [tok |-> [p \in Procs(c) |-> 0],
   transit |-> [p \in Procs(c) |-> 0],
   order |-> <<>>,                              \* callers in the order they queued (C11)
   call |-> [p \in Procs(c) |-> "none"],        \* none | open | granted | refused
   cancelled |-> [p \in Procs(c) |-> FALSE],
   failed |-> [p \in Procs(c) |-> FALSE],       \* p's latest own attempt failed
   pre |-> [p \in Procs(c) |-> FALSE],          \* p's context was done already when its Acquire was called
   lw |-> [p \in Procs(c) |-> FALSE],           \* finding P2: Broadcast between failed attempt and sleep
   since |-> [p \in Procs(c) |-> -1],           \* instant p was first seen asleep in this call
   status |-> [p \in Procs(c) |-> "idle"],      \* last observed status
   kids |-> [p \in Procs(c) |-> FALSE],
   now |-> 0, err |-> "", class |-> ""]

Fail(s, class, msg) == IF s.err = "" THEN [s EXCEPT !.err = msg, !.class = class] ELSE s

IsWaitKind(c) == c.kind \in {"blocking", "deadline"}

(* ---- reasons that justify a refusal (C13 "not before its bound", C12 full backlog) -------- *)
Justified(c, s, p, t) ==
  \/ c.kind = "default" /\ Held(c, s) >= c.limit      \* a plain limiter refuses exactly when the limit is held
  \/ c.kind # "default" /\ s.cancelled[p] /\ (IsWaitKind(c) \/ c.evictctx)
  \/ c.kind = "deadline" /\ t >= c.deadline
  \/ c.kind = "queue" /\ s.since[p] >= 0 /\ c.qtimeout > 0 /\ t >= s.since[p] + c.qtimeout
  \/ c.kind = "queue" /\ s.since[p] < 0
       /\ Cardinality({q \in Procs(c) : q # p /\ s.call[q] = "open" /\ InSeq(q, s.order)}) >= c.qmax

(* ---- one event of a step ------------------------------------------------------------------ *)
Ev(c, s, e) ==
  CASE e.k \in {"att", "want", "rel"} /\ e.for \notin Procs(c) ->
         Fail(s, "conserve", "the delegate was called with a context that belongs to no caller of the scenario")
    [] e.k = "att" ->
         LET room == Held(c, s) < c.limit IN
         IF e.ok # room
         THEN Fail(s, "gate", IF e.ok THEN "delegate granted with no capacity free" ELSE "delegate refused with capacity free")
         ELSE IF e.ok /\ e.by = e.for /\ IsWaitKind(c) /\ s.pre[e.by]
         THEN \* C13, last clause: a call made with a context that is done already (or to the deadline limiter after its deadline)
              \* is refused without consuming capacity - not even for an instant
              Fail([s EXCEPT !.tok[e.for] = @ + 1], "bound", "a call made with an already-cancelled context (or after the deadline) took a token from the delegate")
         ELSE IF e.ok /\ e.by = e.for
         THEN [s EXCEPT !.tok[e.for] = @ + 1, !.lw[e.by] = FALSE, !.failed[e.by] = FALSE]
         ELSE IF e.ok THEN [s EXCEPT !.transit[e.for] = @ + 1]
         ELSE IF e.by = e.for THEN [s EXCEPT !.lw[e.by] = FALSE, !.failed[e.by] = TRUE]
         ELSE s
    [] e.k = "want" ->
         \* a completion's unblock chose e.for (delegate attempt on its behalf is about to be made):
         \* it must be the next of the callers still queued, in the order the configuration promises
         \* (expect = "any": callers started at once in real time - their arrival order is the scheduler's, nothing to judge)
         IF e.by = e.for \/ c.kind # "queue" \/ c.expect = "any" THEN s
         ELSE LET \* still waiting: call open and no token already on its way to it from an earlier hand-off
                  waiting == SelectSeq(s.order, LAMBDA q : s.call[q] = "open" /\ s.transit[q] = 0)
                  want == IF Len(waiting) = 0 THEN "" ELSE IF c.expect = "fifo" THEN waiting[1] ELSE waiting[Len(waiting)]
              IN IF want # e.for THEN Fail(s, "order", "hand-off chose a caller that is not next in the configured order") ELSE s
    [] e.k = "rel" ->
         IF e.n # 1 THEN Fail(s, "conserve", "delegate listener completed more than once")
         ELSE IF e.by = e.for /\ s.tok[e.for] >= 1 THEN [s EXCEPT !.tok[e.for] = @ - 1]
         ELSE IF s.transit[e.for] >= 1 THEN [s EXCEPT !.transit[e.for] = @ - 1]
         ELSE IF s.tok[e.for] >= 1 THEN [s EXCEPT !.tok[e.for] = @ - 1]
         ELSE Fail(s, "conserve", "completion of a token that is not out")
    [] e.k = "ret" ->
         IF s.call[e.p] # "open" THEN Fail(s, "conserve", "return of a call that is not open")
         ELSE IF e.ok /\ c.blackbox
         THEN LET waiting == SelectSeq(s.order, LAMBDA q : s.call[q] = "open")
                  want == IF Len(waiting) = 0 THEN "" ELSE IF c.expect = "fifo" THEN waiting[1] ELSE waiting[Len(waiting)]
                  s1 == [s EXCEPT !.call[e.p] = "granted", !.since[e.p] = -1, !.tok[e.p] = 1]
              IN IF e.nil THEN Fail(s, "conserve", "ok=true with a nil listener")
                 ELSE IF Held(c, s) >= c.limit THEN Fail(s1, "gate", "granted while the limit of tokens was already held")
                 ELSE IF c.kind = "queue" /\ c.expect # "any" /\ InSeq(e.p, waiting) /\ want # e.p
                      THEN Fail(s1, "order", "capacity went to a caller that is not next in the configured order")
                 ELSE s1
         ELSE IF e.ok
         THEN IF e.nil THEN Fail(s, "conserve", "ok=true with a nil listener")
              ELSE IF s.tok[e.p] = 1 /\ s.transit[e.p] = 0 THEN [s EXCEPT !.call[e.p] = "granted", !.since[e.p] = -1]
              ELSE IF s.tok[e.p] = 0 /\ s.transit[e.p] = 1
                   THEN [s EXCEPT !.call[e.p] = "granted", !.since[e.p] = -1, !.tok[e.p] = 1, !.transit[e.p] = 0]
              ELSE Fail(s, "conserve", "granted call does not hold exactly one token")
         ELSE IF ~e.nil THEN Fail(s, "conserve", "ok=false with a non-nil listener")
              ELSE IF s.tok[e.p] # 0 THEN Fail(s, "conserve", "refused call still holds a token")
              ELSE IF c.allserved THEN Fail([s EXCEPT !.call[e.p] = "refused"], "starved", "a caller within limit + backlog was refused although every holder released in time")
              ELSE IF ~Justified(c, s, e.p, e.t) THEN Fail([s EXCEPT !.call[e.p] = "refused", !.since[e.p] = -1], "early", "refused without cancellation, deadline, timeout or full backlog")
              ELSE IF c.kind = "queue" /\ s.since[e.p] < 0 /\ ~s.cancelled[e.p] /\ e.t # s.now
                   THEN Fail([s EXCEPT !.call[e.p] = "refused"], "backlog", "refusal at a full backlog took virtual time")
              ELSE [s EXCEPT !.call[e.p] = "refused", !.since[e.p] = -1]
    [] OTHER -> s

RECURSIVE Evs(_, _, _, _)
Evs(c, s, evs, i) == IF i > Len(evs) THEN s ELSE Evs(c, Ev(c, s, evs[i]), evs, i + 1)

(* ---- the step itself (environment side) --------------------------------------------------- *)
StepAct(c, s, x, prev) ==
  CASE x.a = "start" /\ x.call = "acquire" ->
         IF s.call[x.p] # "none" THEN Fail(s, "harness", "second acquire of a process")
         ELSE [s EXCEPT !.call[x.p] = "open", !.pre[x.p] = s.cancelled[x.p] \/ (c.kind = "deadline" /\ s.now > c.deadline)]
    [] x.a = "start" /\ x.call = "release" ->
         IF s.call[x.p] # "granted" THEN Fail(s, "harness", "release without a grant")
         ELSE IF c.blackbox THEN [s EXCEPT !.call[x.p] = "done", !.tok[x.p] = 0]
         ELSE [s EXCEPT !.call[x.p] = "done"]
    [] x.a = "cancel" -> [s EXCEPT !.cancelled[x.p] = TRUE]
    [] x.a = "pass" /\ x.gate = "rel.exit" ->
         \* the Broadcast / unblock of a completion: remember who was between a failed attempt and sleep
         [s EXCEPT !.lw = [p \in Procs(c) |->
             IF (prev.procs[p] = "gate:acq.exit" /\ s.failed[p]) \/ (prev.procs[p] = "blocked" /\ prev.kids[p])
             THEN TRUE ELSE s.lw[p]]]
    [] OTHER -> s

Parked(o, c) == {p \in Procs(c) : o.procs[p] \notin {"idle", "blocked", "granted", "refused", "released"}}
StableObs(o, c) == Parked(o, c) = {} /\ \A p \in Procs(c) : ~o.kids[p]
Asleep(o, c) == {p \in Procs(c) : o.procs[p] = "blocked"}

(* ---- observation after the step ----------------------------------------------------------- *)
AfterObs(c, s0, o) ==
  LET queued(p) == o.procs[p] \in {"blocked", "gate:queue.afterPush"}
      keep == SelectSeq(s0.order, LAMBDA q : s0.call[q] = "open")
      new == {p \in Procs(c) : queued(p) /\ s0.call[p] = "open" /\ ~InSeq(p, keep)}
      s == [s0 EXCEPT !.now = o.t, !.status = o.procs,
                      !.order = IF new = {} THEN keep ELSE keep \o <<CHOOSE p \in new : TRUE>>,
                      !.since = [p \in Procs(c) |-> IF o.procs[p] = "blocked" /\ s0.since[p] < 0 THEN o.t
                                                   ELSE IF o.procs[p] = "blocked" THEN s0.since[p]
                                                   ELSE IF s0.call[p] = "open" THEN s0.since[p] ELSE -1]] IN
  IF o.busy >= 0 /\ o.busy # Held(c, s) THEN Fail(s, "conserve", "strategy busy count differs from the tokens out")
  ELSE IF o.gauge >= 0 /\ o.gauge # Held(c, s) THEN Fail(s, "conserve", "limiter in-flight gauge differs from the tokens out")
  ELSE s

(* stable-state checks: the set of soft rejections (class, process) *)
Soft(c, s, o) ==
  IF ~StableObs(o, c) THEN {}
  ELSE
    {<<"lostwake", p>> : p \in {q \in Asleep(o, c) : c.kind # "default" /\ Held(c, s) < c.limit}}
    \cup {<<"bound", p>> : p \in {q \in Asleep(o, c) :
            \/ (c.kind = "deadline" /\ o.t >= c.deadline)
            \/ (c.kind # "default" /\ s.cancelled[q] /\ (IsWaitKind(c) \/ c.evictctx))
            \/ (c.kind = "queue" /\ c.qtimeout > 0 /\ s.since[q] >= 0 /\ o.t >= s.since[q] + c.qtimeout)}}
    \* a token acquired on a waiter's behalf must have been accepted or given back by the time things are quiet
    \cup {<<"conserve", p>> : p \in {q \in Procs(c) : s.transit[q] > 0}}
    \cup (IF c.kind = "queue" /\ o.q >= 0 /\ o.q # Cardinality(Asleep(o, c)) THEN {<<"backlog", "size">>} ELSE {})
    \cup (IF c.kind = "queue" /\ Cardinality(Asleep(o, c)) > c.qmax THEN {<<"backlog", "over">>} ELSE {})
    \* C02, last sentence: with every granted listener completed and nobody waiting, the backlog is empty
    \cup (IF c.kind = "queue" /\ o.q > 0 /\ Held(c, s) = 0 /\ Asleep(o, c) = {} THEN {<<"conserve", "backlog not empty">>} ELSE {})

Init == l = 1 /\ ok = FALSE /\ cfg = [kind |-> "none"] /\ st = [err |-> ""]

PrintReject(e, class, msg, p, s) ==
  PrintT(<<"REJECT", ToJson([trace |-> e.trace, line |-> l, i |-> e.i, class |-> class, why |-> msg, p |-> p,
                             known |-> IF class = "lostwake" /\ IsWaitKind(cfg) /\ p \in DOMAIN s.lw /\ s.lw[p] THEN "P2" ELSE "",
                             step |-> e.step, obs |-> e.obs])>>)

(* real-time scenarios with a completion parked in mid-release (cfg.promptcancel): cancellation bounds a blocked      *)
(* Acquire whatever a completion is doing meanwhile (C13) - the stable-state rule above never looks at such a state     *)
PromptCancelLate(c, e) ==
  /\ "promptcancel" \in DOMAIN c /\ c.promptcancel
  /\ e.step.a = "cancel"
  /\ IsWaitKind(c) \/ c.evictctx
  /\ e.obs.procs[e.step.p] = "blocked" /\ ~e.obs.kids[e.step.p]

(* scenarios whose callers arrived one after the other, each asleep before the next (cfg.strictfull): whoever is seen     *)
(* blocked is in the backlog.  The caller of this step went to sleep although the backlog held its maximum of blocked      *)
(* callers when the step began - among them possibly callers whose context is done but who have not left yet (C12)         *)
SleptAtFullBacklog(c, s0, e) ==
  /\ "strictfull" \in DOMAIN c /\ c.strictfull /\ c.kind = "queue"
  /\ e.step.a \in {"start", "pass"} /\ e.step.p \in Procs(c)
  /\ s0.status[e.step.p] \in {"idle", "gate:acq.enter", "gate:acq.exit"}
  /\ e.obs.procs[e.step.p] \in {"blocked", "gate:queue.afterPush"}
  /\ Cardinality({q \in Procs(c) \ {e.step.p} : s0.status[q] = "blocked"}) >= c.qmax

Step ==
  /\ l <= Len(Log)
  /\ l' = l + 1
  /\ LET e == Log[l] IN
     IF e.ev = "Reset"
     THEN /\ cfg' = e.cfg /\ ok' = TRUE
          /\ st' = [InitSt(e.cfg) EXCEPT !.status = e.obs.procs]
     ELSE IF e.ev = "Probe"
     THEN \* two callers hand one token back and forth through the backlog (limit 1, nobody else): whenever an Acquire returns
          \* granted the caller has left the backlog - the backlog it reads at that moment is empty (C12)
          /\ UNCHANGED <<ok, cfg, st>>
          /\ e.nonempty > 0 =>
                PrintT(<<"REJECT", ToJson([trace |-> e.trace, line |-> l, i |-> e.i, class |-> "backlog",
                                           why |-> "a caller whose Acquire had returned granted was still counted in the backlog", p |-> "",
                                           known |-> "", step |-> [a |-> "probe", handoffs |-> e.handoffs, nonempty |-> e.nonempty], obs |-> e.obs])>>)
     ELSE IF ~ok THEN UNCHANGED <<ok, cfg, st>>
     ELSE IF e.ev = "End"
     THEN /\ UNCHANGED <<ok, cfg, st>>
          /\ \A p \in Procs(cfg) : (cfg.allserved /\ st.call[p] = "open") =>
                PrintT(<<"REJECT", ToJson([trace |-> e.trace, line |-> l, i |-> e.i, class |-> "starved", why |-> "caller never answered", p |-> p,
                                           known |-> "", step |-> [a |-> "end"], obs |-> e.obs])>>)
     ELSE LET s1 == StepAct(cfg, st, e.step, [procs |-> st.status, kids |-> st.kids])
              s2 == Evs(cfg, s1, e.evs, 1)
              s3 == AfterObs(cfg, s2, e.obs)
              s4 == [s3 EXCEPT !.kids = e.obs.kids]
          IN /\ PromptCancelLate(cfg, e) =>
                  PrintReject(e, "bound", "a cancelled caller that no gate holds had not returned when the step had settled (a completion was in progress)", e.step.p, s3)
             /\ SleptAtFullBacklog(cfg, st, e) =>
                  PrintReject(e, "backlog", "a caller went to sleep although the backlog already held its maximum of blocked callers when it arrived", e.step.p, s3)
             /\ IF s3.err # "" /\ s3.class \in {"early", "order"}
                THEN \* an unjustified refusal, or a hand-off to the wrong caller, leaves the book-keeping intact (who holds what is
                     \* still known): report it and go on, so that what it did to the other callers and to the counts is judged too
                     /\ PrintReject(e, s3.class, s3.err, "", s3) /\ UNCHANGED <<ok, cfg>>
                     /\ st' = [s4 EXCEPT !.err = "", !.class = ""]
                     /\ \A r \in Soft(cfg, s3, e.obs) : PrintReject(e, r[1], "stable state", r[2], s3)
                ELSE IF s3.err # ""
                THEN /\ PrintReject(e, s3.class, s3.err, "", s3) /\ ok' = FALSE /\ UNCHANGED <<cfg, st>>
                ELSE /\ st' = s4 /\ UNCHANGED <<ok, cfg>>
                     /\ \A r \in Soft(cfg, s3, e.obs) : PrintReject(e, r[1], "stable state", r[2], s3)

Done == l > Len(Log) /\ UNCHANGED vars
Next == Step \/ Done
Consumed == (l > Len(Log)) => PrintT(<<"CONSUMED", l - 1>>)
=================================================================================
