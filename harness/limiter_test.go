//go:build verif

package harness

import (
	"context"
	"encoding/json"
	"fmt"
	"math"
	"path/filepath"
	"sync"
	"testing"
	"testing/synctest"
	"time"

	"github.com/platinummonkey/go-concurrency-limits/core"
	"github.com/platinummonkey/go-concurrency-limits/limiter"
	"github.com/platinummonkey/go-concurrency-limits/strategy"
)

// ScriptedLimit is a core.Limit whose estimate follows a script (one value per OnSample) and
// which records every sample it receives.
type ScriptedLimit struct {
	mu      sync.Mutex
	est     int
	script  []int
	n       int
	Samples []J
}

func (l *ScriptedLimit) EstimatedLimit() int {
	l.mu.Lock()
	defer l.mu.Unlock()
	return l.est
}
func (l *ScriptedLimit) NotifyOnChange(core.LimitChangeListener) {}
func (l *ScriptedLimit) OnSample(start int64, rtt int64, inFlight int, didDrop bool) {
	l.mu.Lock()
	defer l.mu.Unlock()
	l.n++
	fault := false
	if l.n <= len(l.script) {
		if l.script[l.n-1] == panicMark {
			fault = true // the algorithm takes the sample (recorded below) and then faults
		} else {
			l.est = l.script[l.n-1] // afterwards OnSample leaves the estimate alone, like a settable limit
		}
	}
	if fault {
		defer panic(algorithmFault)
	}
	rec := J{"rtt": rtt / int64(tickDur), "inflight": inFlight, "drop": didDrop}
	if rtt%int64(tickDur) != 0 {
		rec["rtt_ns_remainder"] = rtt % int64(tickDur)
	}
	if start != 0 {
		rec["start"] = start
	}
	l.Samples = append(l.Samples, rec)
}

// panicMark in a script: the scripted algorithm panics after taking that sample (PanicMark of spec/Limiter.tla); the
// completion's caller recovers, like a recovery middleware, and goes on using the limiter.
const panicMark = -7777
const algorithmFault = "verif: limit algorithm fault"

// completeRecovering runs a completion and swallows the scripted algorithm's own fault.
func completeRecovering(f func()) {
	defer func() {
		if r := recover(); r != nil && r != algorithmFault {
			panic(r)
		}
	}()
	f()
}

// limCfg mirrors the cfg record of spec/Limiter.tla.
type limCfg struct {
	Strat     string  `json:"strat"`
	WSize     int     `json:"wsize"`
	MinW      int     `json:"minw"`
	MaxW      int     `json:"maxw"`
	Threshold int     `json:"threshold"`
	Est0      int     `json:"est0"`
	Script    []int   `json:"script"`
	Rem0      int     `json:"rem0"`
	Part      partCfg `json:"part"`
}

type limOp struct {
	Op      string    `json:"op"`
	Key     string    `json:"key"`
	D       int       `json:"d,omitempty"`
	V       int       `json:"v"`
	I       int       `json:"i,omitempty"`
	Outcome string    `json:"outcome,omitempty"`
	Items   []limItem `json:"items,omitempty"`
}

// limItem is one completion of a burst: I indexes the outstanding listeners left after the items before it.
type limItem struct {
	I       int    `json:"i"`
	Outcome string `json:"outcome"`
}

type limSUT struct {
	cfg    limCfg
	reg    *RecordingRegistry
	lim    *ScriptedLimit
	dl     *limiter.DefaultLimiter
	busy   func() int
	limit  func() int
	part   *partSUT
	ls     []core.Listener // outstanding, oldest first
	nilBad bool
}

func newLimSUT(cfg limCfg) (*limSUT, error) {
	s := &limSUT{cfg: cfg, reg: newRecordingRegistry(), lim: &ScriptedLimit{est: cfg.Est0, script: cfg.Script}}
	var st core.Strategy
	switch cfg.Strat {
	case "simple":
		x := strategy.NewSimpleStrategyWithMetricRegistry(7, s.reg) // the constructor must overwrite this with the estimate
		st, s.busy, s.limit = x, x.GetBusyCount, x.GetLimit
	case "precise":
		x := strategy.NewPreciseStrategyWithMetricRegistry(7, s.reg)
		st, s.busy, s.limit = x, x.GetBusyCount, x.GetLimit
	case "lookup", "predicate":
		p, err := newPartSUT(cfg.Part)
		if err != nil {
			return nil, err
		}
		s.part = p
		st = p.strat()
		s.busy = func() int { _, b := p.totals(); return b }
		s.limit = func() int { l, _ := p.totals(); return l }
	default:
		return nil, fmt.Errorf("unknown strategy %q", cfg.Strat)
	}
	dl, err := limiter.NewDefaultLimiter(s.lim, int64(cfg.MinW)*int64(tickDur), int64(cfg.MaxW)*int64(tickDur),
		int64(cfg.Threshold)*int64(tickDur), cfg.WSize, st, nil, s.reg)
	if err != nil {
		return nil, err
	}
	s.dl = dl
	return s, nil
}

func (s *limSUT) observe() any {
	bl := J{}
	if s.part != nil {
		for _, id := range s.part.order {
			bl[id] = s.part.objLimit(id)
		}
	}
	s.lim.mu.Lock()
	n := s.lim.n
	s.lim.mu.Unlock()
	reg := s.reg
	if s.part != nil {
		reg = s.part.reg
	}
	gl, ok := reg.Gauge(core.MetricLimit)
	if !ok {
		gl = -1
	}
	return J{"gauge": int(s.dl.VerifInFlight()), "busy": s.busy(), "limit": s.limit(), "est": clipInt(s.lim.EstimatedLimit()), "nsamp": n, "bl": bl, "glimit": gl}
}

func (s *limSUT) apply(op limOp) (res J, err error) {
	defer func() {
		if r := recover(); r != nil {
			err = fmt.Errorf("panic: %v", r)
		}
	}()
	s.lim.mu.Lock()
	before := len(s.lim.Samples)
	s.lim.mu.Unlock()
	s.reg.takeSamples()
	ok := true
	switch op.Op {
	case "acq":
		ctx := context.Background()
		if s.part != nil {
			ctx = keyCtx(s.cfg.Part.Kind, op.Key)
		}
		l, granted := s.dl.Acquire(ctx)
		ok = granted
		if granted != (l != nil) {
			return J{"ok": granted, "samples": []J{}, "inflight": -3}, nil
		}
		if granted {
			s.ls = append(s.ls, l)
		}
	case "adv":
		time.Sleep(time.Duration(op.D) * tickDur)
	case "ext":
		s.lim.mu.Lock()
		s.lim.est = op.V
		s.lim.mu.Unlock()
	case "comp":
		if op.I < 1 || op.I > len(s.ls) {
			return nil, fmt.Errorf("no outstanding listener %d", op.I)
		}
		l := s.ls[op.I-1]
		s.ls = append(append([]core.Listener{}, s.ls[:op.I-1]...), s.ls[op.I:]...)
		switch op.Outcome {
		case "success":
			completeRecovering(l.OnSuccess)
		case "ignore":
			completeRecovering(l.OnIgnore)
		default:
			completeRecovering(l.OnDropped)
		}
	case "burst":
		// the listed calls complete at once, each from its own goroutine behind a common start barrier
		var picked []core.Listener
		for _, it := range op.Items {
			if it.I < 1 || it.I > len(s.ls) {
				return nil, fmt.Errorf("no outstanding listener %d", it.I)
			}
			picked = append(picked, s.ls[it.I-1])
			s.ls = append(append([]core.Listener{}, s.ls[:it.I-1]...), s.ls[it.I:]...)
		}
		start := make(chan struct{})
		var wg sync.WaitGroup
		for k, l := range picked {
			wg.Add(1)
			go func(l core.Listener, outcome string) {
				defer wg.Done()
				<-start
				switch outcome {
				case "success":
					completeRecovering(l.OnSuccess)
				case "ignore":
					completeRecovering(l.OnIgnore)
				default:
					completeRecovering(l.OnDropped)
				}
			}(l, op.Items[k].Outcome)
		}
		close(start)
		wg.Wait()
	default:
		return nil, fmt.Errorf("unknown op %q", op.Op)
	}
	s.lim.mu.Lock()
	samples := append([]J{}, s.lim.Samples[before:]...)
	s.lim.mu.Unlock()
	inflight := -1
	if s.part == nil {
		n := 0
		for _, m := range s.reg.takeSamples() {
			if m.ID == core.MetricInFlight {
				n++
				inflight = int(m.Value)
			}
		}
		if n > 1 {
			inflight = -2
		}
	}
	return J{"ok": ok, "samples": samples, "inflight": inflight}, nil
}

func (s *limSUT) applyRaw(raw json.RawMessage) (any, error) {
	var op limOp
	if err := json.Unmarshal(raw, &op); err != nil {
		return nil, err
	}
	return s.apply(op)
}

func mkLim(raw json.RawMessage) (sut, error) {
	var cfg limCfg
	if err := json.Unmarshal(raw, &cfg); err != nil {
		return nil, err
	}
	return newLimSUT(cfg)
}

// clipInt: estimates far below zero (beyond what an int32 holds - and TLC's integers are 32 bit) are reported to the model
// as -2^30: every non-positive estimate means the same to the contract (the limit in force is 1)
func clipInt(v int) int {
	if v < -(1 << 30) {
		return -(1 << 30)
	}
	return v
}

func clipInts(vs []int) []int {
	out := make([]int, len(vs))
	for i, v := range vs {
		out[i] = clipInt(v)
	}
	return out
}

func inBubble(t *testing.T, f func(t *testing.T)) {
	synctest.Test(t, f)
}

// TestLimiterReplay drives real DefaultLimiters (scripted limit, virtual clock) through every
// transition of the TLC state graphs of spec/LimiterMC.tla.
func TestLimiterReplay(t *testing.T) {
	files, _ := filepath.Glob(filepath.Join(filepath.Dir(inFile(t, "x")), "limiter_*.ndjson"))
	if len(files) == 0 {
		t.Fatal("no limiter_*.ndjson graphs")
	}
	var reps []*gReport
	for _, f := range files {
		f := f
		inBubble(t, func(t *testing.T) {
			rep := replayGraph(t, f, mkLim)
			t.Logf("%s: %s", filepath.Base(f), rep)
			reps = append(reps, rep)
		})
	}
	writeJSON(t, filepath.Join(outDir(t), "limiter_replay.json"), reps)
}

// TestLimiterRandom records seeded sequential histories of real DefaultLimiters over all four
// strategy kinds with scripted estimate trajectories (including 0, negative and repeated values).
func TestLimiterRandom(t *testing.T) {
	n := envInt("VERIF_N", 100)
	w := newNdWriter(t, filepath.Join(outDir(t), "limiter_trace.ndjson"))
	defer w.close()
	nb := envInt("VERIF_BURSTY", n/5)
	for k := 0; k < n+nb; k++ {
		k := k
		bursty := k >= n // histories made mostly of concurrent bursts of completions on a roomy limiter
		inBubble(t, func(t *testing.T) {
			r := newRng(seed(), uint64(k))
			cfg := limCfg{Strat: []string{"simple", "precise", "lookup", "predicate"}[k%4], WSize: r.between(10, 13),
				MinW: r.between(1, 6), Threshold: r.between(0, 2), Est0: r.between(1, 6), Rem0: -1}
			cfg.MaxW = cfg.MinW + r.intn(6)
			for i := r.between(1, 5); i > 0; i-- {
				cfg.Script = append(cfg.Script, []int{-3, 0, 1, 2, 3, 5, 8, 16, math.MinInt32 - 1, -(1 << 32) + 7, math.MinInt64 + 5, panicMark}[r.intn(12)])
			}
			if bursty {
				cfg.Strat, cfg.Est0, cfg.Threshold = []string{"simple", "precise"}[k%2], r.between(8, 14), r.intn(2)
				for i := range cfg.Script {
					cfg.Script[i] = r.between(8, 16)
				}
			}
			if r.chance(1, 3) { // repeated value
				cfg.Script = append(cfg.Script, cfg.Script[len(cfg.Script)-1])
			}
			keys := []string{"a", "b", "z"}
			if cfg.Strat == "lookup" || cfg.Strat == "predicate" {
				cfg.Part = partCfg{Kind: cfg.Strat, Den: 16, Limit: r.between(1, 9), Objs: map[string]partObjCfg{
					"p0": {Name: "a", Num: r.intn(9), Match: []string{"a"}, Built: 3},
					"p1": {Name: "b", Num: r.intn(8), Match: []string{"b", "a"}, Built: 1},
				}, Init: []string{"p0", "p1"}, Variant: map[string]string{"unknown": "contract", "add": "contract"}}
			} else {
				cfg.Part = partCfg{Kind: "none"}
			}
			s, err := newLimSUT(cfg)
			if err != nil {
				t.Fatalf("trace %d: %v", k, err)
			}
			cfgOut := J{"strat": cfg.Strat, "wsize": cfg.WSize, "minw": cfg.MinW, "maxw": cfg.MaxW, "threshold": cfg.Threshold,
				"est0": cfg.Est0, "script": clipInts(cfg.Script), "rem0": cfg.Rem0, "part": J{"kind": "none"}}
			if s.part != nil {
				cfgOut["part"] = cfg.Part
			}
			w.write(J{"ev": "Reset", "trace": k, "cfg": cfgOut, "post": s.observe()})
			nops := r.between(80, 260)
			if bursty {
				nops = 700
			}
			sinceClose := 0 // completions since the last window seen by the algorithm: an upper bound of the window's count
			for i := 0; i < nops; i++ {
				var op limOp
				x := r.intn(100)
				if bursty {
					switch {
					case len(s.ls) < 2 || (x < 40 && len(s.ls) < 8):
						x = 20 // acquire
					case sinceClose+2 <= cfg.WSize && x < 85:
						x = 0 // burst
					case x < 92:
						x = 99 // advance
					default:
						x = 50 // one completion
					}
				}
				switch {
				case x < 12 && len(s.ls) >= 2 && sinceClose+2 <= cfg.WSize:
					// a burst of concurrent completions, small enough for the window not to become ready in mid-burst
					kmax := len(s.ls)
					if room := cfg.WSize - sinceClose; room < kmax {
						kmax = room
					}
					left := len(s.ls)
					kk := r.between(2, kmax)
					if bursty {
						kk = kmax
					}
					for j := 0; j < kk; j++ {
						o := "success"
						if y := r.intn(10); y == 0 {
							o = "ignore"
						} else if y <= 2 {
							o = "dropped"
						}
						op.Items = append(op.Items, limItem{I: r.between(1, left), Outcome: o})
						left--
					}
					op.Op = "burst"
				case x < 40:
					op = limOp{Op: "acq", Key: r.pick(keys)}
				case x < 80 && len(s.ls) > 0:
					o := "success"
					if y := r.intn(10); y == 0 {
						o = "ignore"
					} else if y == 1 {
						o = "dropped"
					}
					op = limOp{Op: "comp", I: r.between(1, len(s.ls)), Outcome: o}
				case x < 80:
					op = limOp{Op: "acq", Key: r.pick(keys)}
				case x >= 96 && !bursty:
					op = limOp{Op: "ext", V: []int{-3, 0, 1, 2, 4, 7, 12}[r.intn(7)]}
				default:
					op = limOp{Op: "adv", D: r.between(1, 4)}
				}
				res, err := s.apply(op)
				if err != nil {
					w.write(J{"ev": "Op", "trace": k, "op": op, "res": J{"ok": false, "err": err.Error()}, "post": J{}})
					return
				}
				if len(res["samples"].([]J)) > 0 {
					sinceClose = 0
				} else if op.Op == "comp" {
					sinceClose++
				} else if op.Op == "burst" {
					sinceClose += len(op.Items)
				}
				w.write(J{"ev": "Op", "trace": k, "op": op, "res": res, "post": s.observe()})
			}
		})
	}
}
