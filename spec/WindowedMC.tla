---------------------------------- MODULE WindowedMC ----------------------------------
(* Exhaustive exploration of the Windowed contract over a small input alphabet; every         *)
(* transition is printed so that the harness drives a real WindowedLimit (recording delegate)  *)
(* through the whole graph (model -> code).                                                    *)
EXTENDS Windowed, TLC, Json

CONSTANTS WSize, Threshold, MaxCount, MaxT, Emit
MCcfg == [wsize |-> WSize, threshold |-> Threshold]
VARIABLES w, T
vars == <<w, T>>

Ins == [rtt : {0, 1, 5, 40}, inflight : {0, WSize, WSize + 1, WSize + 7}, drop : BOOLEAN, dt : {0, 1, 2}]

Init == /\ w = Empty /\ T = 1
        /\ Emit => /\ PrintT(<<"C", ToJson(MCcfg)>>)
                   /\ PrintT(<<"I", ToJson([o |-> [nclosed |-> 0], k |-> [w |-> w, T |-> T]])>>)
Next == \E x \in Ins :
          LET t2 == T + x.dt
              r == Fold(MCcfg, w, [t |-> t2, rtt |-> x.rtt, inflight |-> x.inflight, drop |-> x.drop]) IN
          /\ t2 <= MaxT /\ r.st.count <= MaxCount
          /\ w' = r.st /\ T' = t2
          /\ Emit => PrintT(<<"T", ToJson([from |-> [o |-> [nclosed |-> 0], k |-> [w |-> w, T |-> T]],
                                           op |-> [t |-> t2, rtt |-> x.rtt, inflight |-> x.inflight, drop |-> x.drop],
                                           res |-> [out |-> r.out],
                                           to |-> [o |-> [nclosed |-> 0], k |-> [w |-> r.st, T |-> t2]]])>>)
(* consequences *)
DropIffSomeDrop == TRUE
MeanWithinWindow == w.count > 0 => (w.sum \div w.count) <= 40
=================================================================================
