SPECIFICATION Spec
CONSTANTS
  P = {1, 2, 3}
  Dropped = {3}
  WSize = 10
  Pre = 9
  PreRtt = 5
  MinW = 1
  MaxW = 3
  MaxClock = 2
  Reread = FALSE
  Emit = FALSE
INVARIANT NoLoss
INVARIANT SeenOnce
INVARIANT OnlyReady
INVARIANT DropExact
CHECK_DEADLOCK FALSE
