-------------------------------- MODULE Partition --------------------------------
(* Contract of the two partitioned strategies (strategy/lookup_partition.go,                *)
(* strategy/predicate_partition.go), property C03 (and the share half of C05, the bin half  *)
(* of C02).  The strategy is a sequential object behind one mutex, so the contract is a     *)
(* deterministic function  Apply(cfg, s, op) -> [st, res]  of the abstract state.           *)
(*                                                                                          *)
(* cfg (immutable per scenario):                                                            *)
(*   kind   "lookup" | "predicate"                                                          *)
(*   den    common denominator of all fractions (a power of two in every driver, so that    *)
(*          Go's float64 product limit*percent is exact)                                    *)
(*   objs   record: partition object id |-> [name, num, match]                              *)
(*            name  : key the lookup strategy registers it under                            *)
(*            num   : fraction numerator (percent = num/den)                                *)
(*            match : sequence of request keys its predicate accepts (predicate strategy)   *)
(*   init   sequence of object ids registered at construction; limit  initial total limit   *)
(*   variant [unknown, add] - "contract", or the divergences of the code as delivered       *)
(*          (DESIGN section 7, P8) so that TLC can show where they part                     *)
(* s (abstract state): limit, busy, ob[o] (tokens outstanding per object, registered or     *)
(*   not), ol[o] (share in force), reg (registered objects, registration order),            *)
(*   ub / ul (the lookup strategy's unknown bin).                                           *)
EXTENDS Integers, Sequences, FiniteSets

Max(a, b) == IF a > b THEN a ELSE b
CeilDiv(a, b) == (a + b - 1) \div b
Range(f) == {f[i] : i \in DOMAIN f}

UNKNOWN == "<unknown>"

(* share = max(1, ceil(total x fraction)) *)
Share(L, num, den) == Max(1, CeilDiv(L * num, den))

ObjIds(cfg) == DOMAIN cfg.objs
IsReg(s, o) == \E i \in 1..Len(s.reg) : s.reg[i] = o
(* The library's string matcher compares exactly, or - built case-insensitive (ci) - after folding case on both    *)
(* sides; cfg.lower is the folding of the keys in use (TLA+ has no string functions).  Lookup names are exact.    *)
Low(cfg, k) == IF "lower" \in DOMAIN cfg /\ k \in DOMAIN cfg.lower THEN cfg.lower[k] ELSE k
IsCi(cfg, o) == "ci" \in DOMAIN cfg.objs[o] /\ cfg.objs[o].ci
Matches(cfg, o, k) == \E i \in 1..Len(cfg.objs[o].match) :
                        IF IsCi(cfg, o) THEN Low(cfg, cfg.objs[o].match[i]) = Low(cfg, k) ELSE cfg.objs[o].match[i] = k

UnknownShare(cfg, L) ==
  IF cfg.variant.unknown = "contract" THEN Share(L, 0, cfg.den) ELSE cfg.limit

InitState(cfg) ==
  [limit |-> cfg.limit, busy |-> 0,
   ob |-> [o \in ObjIds(cfg) |-> 0],
   ol |-> [o \in ObjIds(cfg) |-> Share(cfg.limit, cfg.objs[o].num, cfg.den)],
   reg |-> cfg.init,
   ub |-> 0,
   ul |-> IF cfg.kind = "lookup" THEN UnknownShare(cfg, cfg.limit) ELSE 0]

(* The bin a request with key k is charged to: an object id, UNKNOWN (lookup only), or ""   *)
(* (predicate strategy, no predicate matches: refused).                                     *)
FirstMatch(cfg, s, k) ==
  LET idx == {i \in 1..Len(s.reg) : Matches(cfg, s.reg[i], k)}
  IN IF idx = {} THEN "" ELSE s.reg[CHOOSE i \in idx : \A j \in idx : i <= j]

(* the default lookup function yields "" for a request without a key or with a key that is no string: such requests  *)
(* belong to the partition registered under the empty name, if there is one                                          *)
LookupKey(k) == IF k \in {"<none>", "<int>"} THEN "" ELSE k
NameBin(cfg, s, n) ==
  LET c == {o \in Range(s.reg) : cfg.objs[o].name = n}
  IN IF c = {} THEN UNKNOWN ELSE CHOOSE o \in c : TRUE
LookupBin(cfg, s, k) ==
  LET c == {o \in Range(s.reg) : cfg.objs[o].name = LookupKey(k)}
  IN IF c = {} THEN UNKNOWN ELSE CHOOSE o \in c : TRUE

BinOf(cfg, s, k) == IF cfg.kind = "lookup" THEN LookupBin(cfg, s, k) ELSE FirstMatch(cfg, s, k)

BinBusy(s, b) == IF b = UNKNOWN THEN s.ub ELSE s.ob[b]
BinLimit(s, b) == IF b = UNKNOWN THEN s.ul ELSE s.ol[b]

(* C03: admitted exactly when total in-flight is below the total limit or the bin is below  *)
(* its share.                                                                               *)
Admit(cfg, s, k) ==
  LET b == BinOf(cfg, s, k)
  IN b # "" /\ (s.busy < s.limit \/ BinBusy(s, b) < BinLimit(s, b))

(* C20: a grant emits one in-flight sample, tagged with the partition charged, whose value is that partition's count *)
(* including the new token; a refusal emits none                                                                      *)
TagOf(cfg, b) == "partition:" \o (IF b = UNKNOWN THEN UNKNOWN ELSE IF cfg.kind = "lookup" THEN cfg.objs[b].name ELSE b)

Try(cfg, s, k) ==
  LET b == BinOf(cfg, s, k) IN
  IF Admit(cfg, s, k)
  THEN [st |-> IF b = UNKNOWN
               THEN [s EXCEPT !.busy = @ + 1, !.ub = @ + 1]
               ELSE [s EXCEPT !.busy = @ + 1, !.ob[b] = @ + 1],
        res |-> [ok |-> TRUE, bin |-> b, sample |-> [tag |-> TagOf(cfg, b), v |-> BinBusy(s, b) + 1]]]
  ELSE [st |-> s, res |-> [ok |-> FALSE, bin |-> "?", sample |-> [tag |-> "", v |-> 0]]]

CanRelease(s, b) == IF b = UNKNOWN THEN s.ub > 0 ELSE s.ob[b] > 0

Release(cfg, s, b) ==
  [st |-> IF b = UNKNOWN
          THEN [s EXCEPT !.busy = @ - 1, !.ub = @ - 1]
          ELSE [s EXCEPT !.busy = @ - 1, !.ob[b] = @ - 1],
   res |-> [ok |-> TRUE]]

SetLimit(cfg, s, v) ==
  LET L == Max(1, v) IN
  [st |-> [s EXCEPT !.limit = L,
                    !.ol = [o \in ObjIds(cfg) |->
                              IF IsReg(s, o) /\ (cfg.variant.add = "contract" \/ L # s.limit)
                              THEN Share(L, cfg.objs[o].num, cfg.den) ELSE s.ol[o]],
                    !.ul = IF cfg.kind = "lookup" THEN UnknownShare(cfg, L) ELSE 0],
   res |-> [ok |-> TRUE]]

AddOk(cfg, s, o) ==
  IF cfg.kind = "lookup"
  THEN \A r \in Range(s.reg) : cfg.objs[r].name # cfg.objs[o].name
  ELSE ~IsReg(s, o)

Add(cfg, s, o) ==
  IF AddOk(cfg, s, o)
  THEN [st |-> [s EXCEPT !.reg = Append(@, o),
                         !.ol[o] = IF cfg.variant.add = "contract"
                                   THEN Share(s.limit, cfg.objs[o].num, cfg.den)
                                   ELSE cfg.objs[o].built],
        res |-> [ok |-> TRUE]]
  ELSE [st |-> s, res |-> [ok |-> FALSE]]

Filter(seq, P(_)) == SelectSeq(seq, P)

(* lookup: RemovePartition(name) -> (busy of that partition, found)                         *)
(* predicate: RemovePartitionsMatching(ctx with key k) -> (removed objects, any)            *)
Remove(cfg, s, k) ==
  IF cfg.kind = "lookup"
  THEN LET b == NameBin(cfg, s, k) IN   \* RemovePartition takes the name itself
       IF b = UNKNOWN THEN [st |-> s, res |-> [ok |-> FALSE, busy |-> 0]]
       ELSE [st |-> [s EXCEPT !.reg = SelectSeq(@, LAMBDA x : x # b)],
             res |-> [ok |-> TRUE, busy |-> s.ob[b]]]
  ELSE LET gone == SelectSeq(s.reg, LAMBDA x : Matches(cfg, x, k)) IN
       [st |-> [s EXCEPT !.reg = SelectSeq(@, LAMBDA x : ~Matches(cfg, x, k))],
        \* which objects were removed (as a set: the order of the returned slice is not part of the property)
        \* and how many tokens of each were out at that moment (what the partition's own predicate can see while it is asked)
        res |-> [ok |-> Len(gone) > 0, removed |-> [o \in ObjIds(cfg) |-> IsReg(s, o) /\ Matches(cfg, o, k)],
                 counts |-> [o \in ObjIds(cfg) |-> IF IsReg(s, o) /\ Matches(cfg, o, k) THEN s.ob[o] ELSE 0]]]

Apply(cfg, s, op) ==
  CASE op.op = "try" -> Try(cfg, s, op.key)
    [] op.op = "rel" -> Release(cfg, s, op.bin)
    [] op.op = "set" -> SetLimit(cfg, s, op.v)
    [] op.op = "add" -> Add(cfg, s, op.obj)
    [] op.op = "rem" -> Remove(cfg, s, op.key)

OpEnabled(cfg, s, op) == IF op.op = "rel" THEN CanRelease(s, op.bin) ELSE TRUE

(* What the harness can read back from the code after each call.                            *)
Obs(cfg, s) ==
  [limit |-> s.limit, busy |-> s.busy, ob |-> s.ob,
   bl |-> [o \in Range(s.reg) |-> s.ol[o]],
   order |-> IF cfg.kind = "predicate" THEN s.reg ELSE <<>>,
   ul |-> s.ul]

(* ---- consequences of the contract, checked by TLC in every reachable state ------------- *)
Sum(f, S) ==
  LET RECURSIVE SumR(_)
      SumR(T) == IF T = {} THEN 0 ELSE LET x == CHOOSE x \in T : TRUE IN f[x] + SumR(T \ {x})
  IN SumR(S)

BinsSumToTotal(cfg, s) == s.busy = Sum(s.ob, ObjIds(cfg)) + s.ub
SharesCurrent(cfg, s) ==
  /\ \A o \in Range(s.reg) : s.ol[o] = Share(s.limit, cfg.objs[o].num, cfg.den)
  /\ cfg.kind = "lookup" => s.ul = Share(s.limit, 0, cfg.den)
NonNegative(cfg, s) == s.busy >= 0 /\ s.ub >= 0 /\ \A o \in ObjIds(cfg) : s.ob[o] >= 0
(* a bin under its share is never refused; borrowing stops at the total limit *)
GuaranteedShare(cfg, s, keys) ==
  \A k \in keys : LET b == BinOf(cfg, s, k) IN
     /\ (b # "" /\ BinBusy(s, b) < BinLimit(s, b)) => Try(cfg, s, k).res.ok
     /\ (b # "" /\ s.busy >= s.limit /\ BinBusy(s, b) >= BinLimit(s, b)) => ~Try(cfg, s, k).res.ok
     /\ (b # "" /\ s.busy < s.limit) => Try(cfg, s, k).res.ok
     /\ b = "" => ~Try(cfg, s, k).res.ok
=================================================================================
