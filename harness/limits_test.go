//go:build verif

package harness

import (
	"encoding/json"
	"fmt"
	"math"
	"path/filepath"
	"sync"
	"sync/atomic"
	"testing"
	"time"

	"github.com/platinummonkey/go-concurrency-limits/core"
	"github.com/platinummonkey/go-concurrency-limits/limit"
	"github.com/platinummonkey/go-concurrency-limits/limit/functions"
)

// chunks encodes a non-negative int64 as three 21-bit chunks (most significant first): TLC integers
// are 32-bit, and lexicographic order of the chunks is numeric order.
func chunks(v int64) []int {
	if v < 0 {
		return []int{-1, -1, -1}
	}
	return []int{int(v >> 42), int((v >> 21) & 0x1FFFFF), int(v & 0x1FFFFF)}
}

// algoCfg is the configuration record of a limit-algorithm scenario (contract LimitTrace).
// forceTol, when positive, replaces the randomly drawn RTT tolerance of the next Gradient limits built (the twin
// experiments cycle through integral and fractional tolerances instead of leaving them to the draw)
var forceTol float64

type algoCfg struct {
	Algo     string `json:"algo"`
	Wrap     string `json:"wrap"` // none | traced | windowed
	Initial  int    `json:"initial"`
	Floor    int    `json:"floor"`
	Ceil     int    `json:"ceil"` // -1: none (AIMD)
	Inc      int    `json:"inc"`
	BNum     int    `json:"bnum"`
	BDen     int    `json:"bden"`
	Queue    int    `json:"queue"`    // gradient: fixed queue allowance (0 = n/a)
	ProbeMax int    `json:"probemax"` // bound on samples between baseline resets (0 = n/a or disabled)
	Smooth   string `json:"smooth"`
	Name     string `json:"name"`
}

type algoSUT struct {
	faultyID    int // the listener registered last panics on every other notification (0: none)
	faultyCalls int
	cfg         algoCfg
	outer       core.Limit // what the application talks to (maybe a wrapper)
	inner       core.Limit
	reg         *RecordingRegistry
	vegas       *limit.VegasLimit
	grad        *limit.GradientLimit
	grad2       *limit.Gradient2Limit
	settable    *limit.SettableLimit
	notes       map[int][]int // listener id -> values delivered during the current operation
	nl          int
	smoothing   float64
}

// listenerFault is what a faulty change listener of the harness panics with (the caller recovers, as a recovery middleware
// would, and goes on using the limit).
const listenerFault = "verif: change listener fault"

func (s *algoSUT) register() int {
	s.nl++
	id := s.nl
	s.outer.NotifyOnChange(func(v int) {
		s.notes[id] = append(s.notes[id], v)
		if id == s.faultyID {
			if s.faultyCalls++; s.faultyCalls%2 == 0 {
				panic(listenerFault)
			}
		}
	})
	return id
}

func newAlgoSUT(r *rng, algo, wrap string) *algoSUT {
	s := &algoSUT{reg: newRecordingRegistry(), notes: map[int][]int{}}
	c := algoCfg{Algo: algo, Wrap: wrap, Name: "verif", Ceil: -1, Floor: 1, BDen: 1}
	smooths := []float64{1, 0.5, 0.25, 0.2, 0.3, 0.15, 0.7, 0.9} // non-dyadic ones too: rounding at the clamps differs
	switch algo {
	case "aimd":
		c.Initial = r.between(1, 40)
		c.Inc = r.between(1, 3)
		b := [][2]int{{1, 2}, {3, 4}, {7, 8}, {15, 16}, {1, 1}, {9, 10}, {1, 4}, {1, 8}, {1, 10}}[r.intn(9)] // (0, 1], below one half too
		c.BNum, c.BDen = b[0], b[1]
		s.inner = limit.NewAIMDLimit(c.Name, c.Initial, float64(c.BNum)/float64(c.BDen), c.Inc, s.reg)
	case "vegas":
		c.Initial = r.between(1, 60)
		c.Ceil = []int{20, 120, 300, 1000}[r.intn(4)]
		s.smoothing = smooths[r.intn(len(smooths))]
		reqSmooth := outOfRangeSmoothing(r, &s.smoothing, 1.0)
		mult := []int{4, 10, 30}[r.intn(3)] // C07 and C15 are jointly satisfiable only if probing leaves room for an update between probes (multiplier >= 4)
		c.ProbeMax = -1                     // bound = multiplier x largest estimate seen, computed by the contract
		c.Inc = mult
		var v *limit.VegasLimit
		switch r.intn(8) {
		case 0:
			// "take the default" multipliers (0, -1: the convention of the default constructors) mean 30
			c.Inc = 30
			v = limit.NewVegasLimitWithRegistry(c.Name, c.Initial, nil, c.Ceil, reqSmooth, nil, nil, nil, nil, nil, []int{0, -1}[r.intn(2)], nil, s.reg)
		case 1:
			// the default constructors: initial 20 (or as given), maximum 1000, smoothing 1, multiplier 30
			c.Initial, c.Ceil, c.Inc, s.smoothing = 20, 1000, 30, 1.0
			v = limit.NewDefaultVegasLimit(c.Name, nil, s.reg)
		case 2:
			c.Ceil, c.Inc, s.smoothing = 1000, 30, 1.0
			v = limit.NewDefaultVegasLimitWithLimit(c.Name, c.Initial, nil, s.reg)
		default:
			// the step functions may be supplied by the caller, one or both: here they are the defaults spelled out, so the
			// contract is the same whichever of them the constructor has to fill in
			lf := functions.Log10RootFloatFunction(0)
			var inc, dec func(float64) float64
			switch r.intn(4) {
			case 1:
				inc = func(l float64) float64 { return l + lf(l) }
			case 2:
				dec = func(l float64) float64 { return l - lf(l) }
			case 3:
				inc = func(l float64) float64 { return l + lf(l) }
				dec = func(l float64) float64 { return l - lf(l) }
			}
			v = limit.NewVegasLimitWithRegistry(c.Name, c.Initial, nil, c.Ceil, reqSmooth, nil, nil, nil, inc, dec, mult, nil, s.reg)
		}
		s.vegas, s.inner = v, v
	case "gradient":
		c.Ceil = []int{50, 200, 1000}[r.intn(3)]
		c.Floor = r.between(1, 6)
		if r.chance(1, 3) {
			c.Floor = r.between(7, 40) // a minimum well above the queue allowance: a probe restarts from the minimum
		}
		c.Queue = r.between(1, 8)
		if c.Queue > c.Ceil {
			c.Queue = c.Ceil
		}
		lo := c.Floor
		if c.Queue > lo {
			lo = c.Queue
		}
		c.Initial = r.between(lo, c.Ceil) // precondition of C06/C07: initial >= queue allowance and >= minimum
		if r.chance(1, 6) {
			c.Initial = c.Ceil + r.between(1, 150)
		}
		s.smoothing = smooths[r.intn(len(smooths))]
		reqSmooth := outOfRangeSmoothing(r, &s.smoothing, 0.2)
		interval := []int{limit.ProbeDisabled, 5, 20, 100, 100}[r.intn(5)]
		if interval > 0 {
			c.ProbeMax = 2 * interval
		}
		tol := []float64{1, 1.5, 2, 2.5}[r.intn(4)]
		if forceTol > 0 {
			tol = forceTol
		}
		qf := functions.FixedQueueSizeFunc(c.Queue)
		if r.chance(1, 2) {
			// the default-style allowance max(queue, sqrt(limit)): at least c.Queue, and its floor is still max(minimum, queue)
			// (with room above it: a maximum of 200 or 1000)
			if c.Ceil < 200 {
				c.Ceil = 200
			}
			qf = functions.SqrtRootFunction(c.Queue)
			if sq := int(math.Sqrt(float64(c.Initial))); c.Initial < sq {
				c.Initial = sq
			}
		}
		g := limit.NewGradientLimitWithRegistry(c.Name, c.Initial, c.Floor, c.Ceil, reqSmooth, qf, tol, interval, nil, s.reg)
		s.grad, s.inner = g, g
		if c.Queue > c.Floor {
			c.Floor = c.Queue // the reported estimate never goes below the queue allowance
		}
	case "gradient2":
		c.Ceil = []int{50, 200}[r.intn(2)]
		c.Floor = r.between(1, 14)
		c.Queue = r.between(1, 6)
		c.Initial = r.between(c.Floor, c.Ceil)
		if r.chance(1, 5) {
			c.Initial = c.Ceil + r.between(1, 150) // the constructor does not bound the initial limit: the first updates bring it back
		}
		s.smoothing = smooths[r.intn(len(smooths))]
		reqSmooth := outOfRangeSmoothing(r, &s.smoothing, 0.2)
		q := c.Queue
		c.Inc = []int{5, 10, 50, 600}[r.intn(4)] // the long RTT window (600 is the library's default)
		g, err := limit.NewGradient2Limit(c.Name, c.Initial, c.Ceil, c.Floor, func(int) int { return q }, reqSmooth, c.Inc, nil, s.reg)
		if err != nil {
			panic(err)
		}
		s.grad2, s.inner = g, g
	case "settable":
		c.Initial = r.between(0, 60)
		c.Floor = -(1 << 20) // only an explicit set moves it, to whatever it is told
		st := limit.NewSettableLimit(c.Name, c.Initial, s.reg)
		s.settable, s.inner = st, st
	case "fixed":
		c.Initial = r.between(0, 60)
		c.Floor = c.Initial
		c.Ceil = c.Initial
		s.inner = limit.NewFixedLimit(c.Name, c.Initial, s.reg)
	}
	c.Smooth = fmt.Sprint(s.smoothing)
	s.outer = s.inner
	switch wrap {
	case "traced":
		s.outer = limit.NewTracedLimit(s.inner, limit.NoopLimitLogger{})
	case "windowed":
		w, err := limit.NewWindowedLimit("win", 100e6, 200e6, 10, 1e6, s.inner, s.reg)
		if err != nil {
			panic(err)
		}
		s.outer = w
	}
	s.cfg = c
	return s
}

// classify an estimate read from the real object
func estClass(e int) string {
	if e == math.MinInt64 || e == math.MaxInt64 {
		return "nan-or-inf"
	}
	return "ok"
}

func (s *algoSUT) baseline() (int64, bool) {
	switch {
	case s.vegas != nil:
		b := s.vegas.RTTNoLoad()
		return b, b != 0
	case s.grad != nil:
		b := s.grad.RTTNoLoad()
		return b, b != 0
	}
	return 0, false
}

func (s *algoSUT) probeState() int64 {
	switch {
	case s.vegas != nil:
		c, _ := s.vegas.VerifProbe()
		return c
	case s.grad != nil:
		return int64(s.grad.VerifResetCounter())
	}
	return 0
}

// sample applies one OnSample to the outer object and returns the observation record.
func (s *algoSUT) sample(start, rtt int64, inflight int, drop bool) J {
	for k := range s.notes {
		delete(s.notes, k)
	}
	s.reg.takeSamples()
	before := s.probeState()
	jitterBefore := 0.0
	if s.vegas != nil {
		_, jitterBefore = s.vegas.VerifProbe()
	}
	// app-limited as the property defines it: strictly below half of the (un-truncated) estimate the algorithm holds
	applim := false
	switch {
	case s.vegas != nil:
		applim = float64(inflight) < s.vegas.VerifEstimate()/2
	case s.grad != nil:
		applim = float64(inflight) < s.grad.VerifEstimate()/2
	case s.grad2 != nil:
		applim = float64(inflight) < s.grad2.VerifEstimate()/2
	}
	panicked := ""
	func() {
		defer func() {
			if r := recover(); r != nil {
				panicked = fmt.Sprint(r)
			}
		}()
		s.outer.OnSample(start, rtt, inflight, drop)
	}()
	lfault := panicked == listenerFault
	if lfault {
		panicked = "" // the harness's own listener: the sample was processed, its caller recovered
	}
	after := s.probeState()
	probe := false
	if s.vegas != nil {
		// a probe (and nothing else) draws a new jitter; forcing the jitter through the accessor happens between samples
		_, jitterAfter := s.vegas.VerifProbe()
		probe = jitterAfter != jitterBefore
	}
	if s.grad != nil {
		probe = after > before // the countdown was re-armed
	}
	est := 0
	func() {
		defer func() {
			if r := recover(); r != nil {
				panicked += " EstimatedLimit:" + fmt.Sprint(r)
			}
		}()
		est = s.outer.EstimatedLimit()
	}()
	b, set := s.baseline()
	notes := J{}
	for id, vs := range s.notes {
		notes[fmt.Sprint(id)] = append([]int{}, vs...)
	}
	m := map[string]int{"rtt": 0, "inflight": 0, "dropped": 0, "other": 0}
	for _, sm := range s.reg.takeSamples() {
		switch sm.ID {
		case s.cfg.Name + "." + core.MetricRTT:
			m["rtt"]++
		case s.cfg.Name + "." + core.MetricInFlight:
			m["inflight"]++
		case s.cfg.Name + "." + core.MetricDropped:
			m["dropped"]++
		}
	}
	cls := estClass(est)
	e := est
	if cls != "ok" {
		e = 0
	}
	if e > 1<<30 || e < -(1<<30) {
		cls, e = "out-of-range", 0
	}
	return J{"est": e, "class": cls, "panic": panicked != "", "panicmsg": panicked, "base": chunks(b), "baseset": set, "probe": probe,
		"notes": notes, "metrics": m, "applim": applim, "lfault": lfault}
}

func pickRTT(r *rng, base int64) int64 {
	switch r.intn(10) {
	case 0:
		return 0
	case 1:
		return 1
	case 2:
		return int64(r.between(2, 100))
	case 3:
		if base > 1 {
			return base - 1
		}
		return base + 1
	case 4:
		return base
	case 5:
		return base + 1
	case 6:
		return base * 2
	case 7:
		return 1 << 31
	case 8:
		return 1 << 62
	default:
		return int64(r.between(1, 1000)) * 1000
	}
}

func pickInflight(r *rng, est int) int {
	if est < 0 {
		est = 0
	}
	switch r.intn(7) {
	case 0:
		return 0
	case 1:
		return est/2 - 1 + boolInt(est/2-1 < 0)*(1-est/2)
	case 2:
		return est / 2
	case 3:
		return est
	case 4:
		return est + 3
	case 5:
		return math.MaxInt32
	default:
		return r.intn(est + 2)
	}
}

func boolInt(b bool) int {
	if b {
		return 1
	}
	return 0
}

// TestLimitRandom records seeded sample sequences of every limit algorithm, bare and wrapped by the
// traced / windowed limits: a free phase over extreme inputs, a run of drops, a run of healthy
// saturated samples, with listeners registered at random points.
func TestLimitRandom(t *testing.T) {
	n := envInt("VERIF_N", 120)
	free := 200
	if thorough() {
		free = 1500
	}
	w := newNdWriter(t, filepath.Join(outDir(t), "limit_trace.ndjson"))
	defer w.close()
	algos := []string{"aimd", "vegas", "gradient", "gradient2"}
	wraps := []string{"none", "none", "traced", "windowed"}
	for k := 0; k < n; k++ {
		r := newRng(seed(), uint64(k))
		s := newAlgoSUT(r, algos[k%4], wraps[(k/4)%4])
		cfg := s.cfg
		nl := r.intn(3)
		for i := 0; i < nl; i++ {
			s.register()
		}
		if nl > 0 && cfg.Wrap == "none" && k%3 == 2 {
			// the listener registered last faults on every other notification; its caller recovers and goes on: whatever the
			// algorithm had to do with that sample - store the estimate, reset a baseline - has been done
			s.faultyID = nl
		}
		w.write(J{"ev": "Reset", "trace": k, "cfg": cfg, "obs": J{"est": s.outer.EstimatedLimit(), "listeners": nl}})
		i := 0
		clock := int64(1e9)
		est := s.outer.EstimatedLimit()
		dead := false
		emit := func(mode string, rtt int64, inflight int, drop bool) J {
			i++
			o := s.sample(clock, rtt, inflight, drop)
			clock += 150e6 // the windowed wrapper needs samples spread over its window period
			w.write(J{"ev": "Sample", "trace": k, "i": i, "in": J{"rtt": chunks(rtt), "rttf": chunks(int64(float64(rtt))), "inflight": inflight, "drop": drop, "mode": mode, "zero": rtt == 0}, "obs": o})
			if o["class"] == "ok" {
				est = o["est"].(int)
			}
			if o["panic"].(bool) || o["class"] != "ok" {
				dead = true
			}
			return o
		}
		base := int64(1000)
		if k%8 >= 4 && r.chance(1, 2) {
			// a coarse or frozen clock at start-up: the very first samples carry a zero RTT, saturated
			for j, nz := 0, r.between(1, 5); j < nz && !dead; j++ {
				emit("free", 0, est+r.between(0, 2), r.chance(1, 6))
			}
		}
		for j := 0; j < free && !dead; j++ {
			if b, set := s.baseline(); set {
				base = b
			}
			if r.chance(1, 60) && s.nl < 3 && s.faultyID == 0 {
				s.register()
				i++
				w.write(J{"ev": "Register", "trace": k, "i": i, "listeners": s.nl})
			}
			infl := pickInflight(r, est)
			if cfg.Wrap == "windowed" && r.chance(2, 3) {
				infl = r.between(11, 40)
			}
			emit("free", pickRTT(r, base), infl, r.chance(1, 8))
		}
		if cfg.Wrap == "none" && !dead {
			// drop run: only drops, fixed RTT not below the baseline
			b, set := s.baseline()
			rtt := int64(5000)
			if set && b > rtt {
				rtt = b
			}
			start := est
			bound := dropBound(cfg, s.smoothing, start)
			cnt := 0
			if cfg.Algo != "gradient2" {
				for cnt < bound && est > cfg.Floor && !dead {
					emit("droprun", rtt, est, true)
					cnt++
				}
				i++
				w.write(J{"ev": "RunEnd", "trace": k, "i": i, "mode": "droprun", "est": est, "n": cnt, "bound": bound, "from": start})
			}
			// healthy run: saturated, drop free, RTT equal to the current baseline (constant for gradient2)
			start = est
			bound = growBound(cfg, s.smoothing, start)
			cnt = 0
			target := cfg.Ceil - 1
			if cfg.Algo == "aimd" {
				target = est + 20*cfg.Inc
			}
			if cfg.Algo == "gradient" && cfg.ProbeMax > 0 {
				target = -1 // probes reset the estimate: only the per-sample growth is required (checked by the contract)
				bound = 3 * cfg.ProbeMax
			}
			for cnt < bound && (est < target || target < 0) && !dead {
				hr := rtt
				if b, set := s.baseline(); set {
					hr = b
				}
				if cfg.Algo == "gradient2" {
					hr = 5000
				}
				emit("healthy", hr, est+1, false)
				cnt++
			}
			i++
			w.write(J{"ev": "RunEnd", "trace": k, "i": i, "mode": "healthy", "est": est, "n": cnt, "bound": bound, "from": start, "target": target})
			// dwell at the ceiling: the boundary values of the estimate (just below the cap, at the cap, one step
			// below it after a drop) are where table look-ups and clamps go wrong
			for j := 0; j < 40 && !dead && cfg.Algo != "aimd"; j++ {
				hr := rtt
				if b, set := s.baseline(); set {
					hr = b
				}
				if cfg.Algo == "gradient2" {
					hr = 5000
				}
				switch {
				case j%9 == 7:
					emit("dwell", hr, est+1, true)
				case j%9 == 8:
					emit("dwell", hr*2, est+1, false)
				default:
					emit("dwell", hr, est+1, false)
				}
			}
			// a second drop run, this time from the top of the range ("from any reachable state"): baseline probes fire in
			// the middle of it while the estimate is still large
			if cfg.Algo != "gradient2" && !dead {
				b, set := s.baseline()
				rtt := int64(5000)
				if set && b > rtt {
					rtt = b
				}
				start := est
				bound := dropBound(cfg, s.smoothing, start)
				cnt := 0
				if s.grad != nil && cfg.ProbeMax > 0 {
					// the library draws the probe countdown from an unseeded source: place a probe early in this run
					if c := r.between(2, 4); s.grad.VerifResetCounter() > c { // only ever sooner: the recurrence bound is the library's own
						s.grad.VerifSetResetCounter(c)
					}
				}
				if s.vegas != nil && r.chance(1, 2) {
					s.vegas.VerifSetProbeJitter(1e-9) // the next sample - a drop - is a probe
				}
				for cnt < bound && est > cfg.Floor && !dead {
					emit("droprun", rtt, est, true)
					cnt++
				}
				i++
				w.write(J{"ev": "RunEnd", "trace": k, "i": i, "mode": "droprun", "est": est, "n": cnt, "bound": bound, "from": start})
			}
		}
		// a stream of record-low RTTs (every other sample a little faster than anything seen), app-limited so that the estimate
		// stays put: baseline resets must keep recurring within the bound all the same
		if s.vegas != nil && cfg.Wrap == "none" && !dead {
			if cfg.Inc*(est+1) <= 400 {
				s.vegas.VerifSetProbeJitter(1e-9) // a probe now: the baseline becomes this sample's RTT, high enough to descend from
				rtt := int64(100000)
				emit("records", rtt, 0, false)
				for j, nrec := 0, 3*cfg.Inc*(est+1); j < nrec && !dead && rtt > 2; j++ {
					if j%2 == 0 {
						rtt--
					}
					emit("records", rtt, 0, false)
				}
			}
		}
		// sustained overload without drops: saturated samples at a multiple of the RTT seen so far pin the estimate on its
		// floor for a few hundred samples (where clamping and smoothing interact)
		for j, hr := 0, int64(50000*(1+r.intn(40))); j < 260 && !dead; j++ {
			emit("overload", hr, est+1, false)
		}
	}
}

// dropBound: number of consecutive drop samples within which the estimate must have reached the floor.
//
//	AIMD:     every drop lowers the limit by at least 1                     -> est
//	Vegas:    every non-probe drop lowers the estimate by smoothing*log10root(est) >= smoothing; probes
//	          (which do not update) recur at most every other sample at small estimates -> 2*est/smoothing + 20
//	Gradient: est' = est*(1 - smoothing/2) until the floor                  -> log(est/floor)/-log(1-s/2), doubled, + probes
func dropBound(c algoCfg, smoothing float64, est int) int {
	switch c.Algo {
	case "aimd":
		return est + 2
	case "vegas":
		return int(2*float64(est)/smoothing) + 20
	case "gradient":
		f := float64(c.Floor)
		nn := math.Log(float64(est)/f+1) / -math.Log(1-smoothing/2)
		return 2*int(nn) + 20
	}
	return 0
}

// growBound: number of healthy saturated samples within which the estimate must be within one of the ceiling.
//
//	AIMD: +inc per sample (20 samples are checked exactly);  Vegas: >= smoothing*6 per non-probe sample;
//	Gradient: >= queue allowance per non-probe sample; Gradient2: >= smoothing*queue per sample once the long
//	average has converged to the constant RTT (within ~20 x long window samples)
func growBound(c algoCfg, smoothing float64, est int) int {
	switch c.Algo {
	case "aimd":
		return 20
	case "vegas":
		return int(2*float64(c.Ceil-est)/(6*smoothing)) + 40
	case "gradient":
		return 2*(c.Ceil-est)/c.Queue + 40
	case "gradient2":
		return int(float64(c.Ceil-est)/(smoothing*float64(c.Queue))) + 1500 + 4*c.Inc
	}
	return 0
}

// outOfRangeSmoothing: one configuration in six asks for a smoothing factor outside [0, 1] (negative ones in and below
// (-1, 0), and above 1), which the constructors replace by their default: it returns what to pass to the constructor and
// sets *eff to the factor the limit must then work with.
func outOfRangeSmoothing(r *rng, eff *float64, def float64) float64 {
	if !r.chance(1, 6) {
		return *eff
	}
	*eff = def
	return []float64{-0.5, -0.1, -0.75, -1, -7, 1.5}[r.intn(6)]
}

// TestLimitTwin records, for Vegas / Gradient / Gradient2, pairs of identically prepared instances
// (same configuration, same sample history, the internal random jitter forced to the same values
// through the verif accessors) that receive a last sample differing only in its RTT (C08).
func TestLimitTwin(t *testing.T) {
	n := envInt("VERIF_N", 60)
	w := newNdWriter(t, filepath.Join(outDir(t), "twin_trace.ndjson"))
	defer w.close()
	defer func() { forceTol = 0 }()
	algos := []string{"vegas", "gradient", "gradient2"}
	type smp struct {
		rtt      int64
		inflight int
		drop     bool
		start    int64
	}
	for k := 0; k < n; k++ {
		algo := algos[k%3]
		forceTol = []float64{1.5, 2, 2.5, 1}[(k/3)%4]
		mk := func() *algoSUT { return newAlgoSUT(newRng(seed(), uint64(k)), algo, "none") }
		ref := mk()
		r := newRng(seed()+7, uint64(k))
		// reference run: record the history and the internal random state after every sample
		var hist []smp
		var jit []float64
		var cnt []int
		j0, c0 := 0.0, 0
		if ref.vegas != nil {
			_, j0 = ref.vegas.VerifProbe()
		}
		if ref.grad != nil {
			c0 = ref.grad.VerifResetCounter()
		}
		est := ref.outer.EstimatedLimit()
		base := int64(1000)
		clockT := int64(1e9)
		hl := r.between(5, 80)
		quiet := k%4 >= 2 && r.chance(1, 2)
		if quiet {
			hl = r.between(1, 12)
		}
		lowProbe := algo == "vegas" && !quiet && r.chance(1, 3)
		// Gradient: the history ends with a forced baseline probe followed by one to three healthy saturated samples, so
		// the pair is judged on the state a probe leaves behind (the estimate it restarts from)
		gradProbe := -1
		if algo == "gradient" && !quiet && ref.cfg.ProbeMax > 0 && r.chance(1, 2) {
			gradProbe = hl - 1 - []int{1, 2, 2, 3, 3, 4}[r.intn(6)]
		}
		var endLast, endMoved, endMax int64 // completion time of the latest sample / of the latest one that moved the estimate
		for i := 0; i < hl; i++ {
			if b, set := ref.baseline(); set {
				base = b
			}
			x := smp{pickRTT(r, base), pickInflight(r, est), r.chance(1, 8), 0}
			if quiet {
				x.inflight, x.drop = 0, false // an idle service: RTTs are measured, the estimate is not touched
			}
			if x.rtt > 1<<40 {
				x.rtt = base * 3
			}
			if lowProbe && i == hl-1 && base > 4 {
				// the history ends with a baseline probe (forced below, after the previous sample) whose RTT is lower than the
				// baseline it replaces: the pair that follows is judged against the new baseline
				x.rtt, x.inflight, x.drop = base/2, est, false
			}
			if gradProbe >= 0 && i > gradProbe {
				x.rtt, x.inflight, x.drop = base, est, false
			}
			if k%2 == 1 {
				// half of the prepared states are built from samples that carry their start time (completions in order)
				clockT += 2 * base
				x.start = clockT
			}
			hist = append(hist, x)
			ref.outer.OnSample(x.start, x.rtt, x.inflight, x.drop)
			endLast = x.start + x.rtt
			if endLast > endMax {
				endMax = endLast
			}
			if e2 := ref.outer.EstimatedLimit(); e2 != est {
				endMoved = endLast
			}
			est = ref.outer.EstimatedLimit()
			if ref.vegas != nil {
				if lowProbe && i == hl-2 {
					ref.vegas.VerifSetProbeJitter(1e-9) // the next sample is a probe (in the twins too: the jitter is replayed)
				}
				_, j := ref.vegas.VerifProbe()
				jit = append(jit, j)
			}
			if ref.grad != nil {
				if i == gradProbe-1 {
					ref.grad.VerifSetResetCounter(1) // the next sample is a probe (in the twins too: the countdown is replayed)
				}
				cnt = append(cnt, ref.grad.VerifResetCounter())
			}
		}
		prepare := func() *algoSUT {
			s := mk()
			if s.vegas != nil {
				s.vegas.VerifSetProbeJitter(j0)
			}
			if s.grad != nil {
				s.grad.VerifSetResetCounter(c0)
			}
			for i, x := range hist {
				s.outer.OnSample(x.start, x.rtt, x.inflight, x.drop)
				if s.vegas != nil {
					s.vegas.VerifSetProbeJitter(jit[i])
				}
				if s.grad != nil {
					s.grad.VerifSetResetCounter(cnt[i])
				}
			}
			return s
		}
		b := int64(1000)
		if bb, set := ref.baseline(); set {
			b = bb
		}
		if ref.grad2 != nil {
			_, long := ref.grad2.VerifRTTs()
			if long >= 1 {
				b = int64(long)
			}
		}
		cands := []int64{b, b + 1, b + b/8, b + b/4, b + b/2, 2 * b, 3 * b, 4 * b, 8 * b, 20 * b}
		if k%4 == 1 {
			// RTTs of seconds, minutes and decades (a completion time far ahead of any clock) at the top of the range
			cands = []int64{b, b + 1, b + b/4, 2 * b, 8 * b, 20 * b, 30e9, 120e9, 1 << 61, 1 << 62}
		}
		w.write(J{"ev": "Reset", "trace": k, "cfg": ref.cfg, "obs": J{"est": ref.cfg.Initial, "listeners": 0}})
		// mostly saturated and drop free: an app-limited or dropped final sample gives the same estimate whatever its RTT
		last := smp{0, []int{est, est, est + 5, est + 1, est / 2, 0}[r.intn(6)], r.chance(1, 10), 0}
		if quiet || gradProbe >= 0 {
			last.inflight, last.drop = est, false
		}
		// a start time, and which of the compared RTTs serves as the lower one (-1: every pair)
		type startAt struct {
			st int64
			lo int
		}
		starts := []startAt{{0, -1}}
		if k%2 == 1 {
			// the final sample started around the time of the latest completions (possibly before the last one ended) ...
			starts = []startAt{{clockT + b*int64(r.between(-12, 3)), -1}}
			// ... and such that the lower of the RTTs compared makes it complete just before an earlier completion - the latest,
			// the latest that moved the estimate, the furthest one, each of the last six - and the higher ones at or after it
			anchors := []int64{endLast, endMoved, endMax}
			for i := len(hist) - 1; i >= 0 && i >= len(hist)-6; i-- {
				anchors = append(anchors, hist[i].start+hist[i].rtt)
			}
			seen := map[int64]bool{}
			for _, a := range anchors {
				if a <= 0 || seen[a] {
					continue
				}
				seen[a] = true
				for lo := 0; lo < 3; lo++ {
					starts = append(starts, startAt{a - cands[lo] - 1, lo})
				}
			}
		}
		for _, sa := range starts {
			st := sa.st
			if st < 1 && k%2 == 1 {
				st = 1
			}
			last.start = st
			for a := 0; a < len(cands); a++ {
				if sa.lo >= 0 && a != sa.lo {
					continue
				}
				for c := a + 1; c < len(cands); c++ {
					lo, hi := cands[a], cands[c]
					if lo >= hi {
						continue
					}
					s1, s2 := prepare(), prepare()
					if s1.outer.EstimatedLimit() != est || s2.outer.EstimatedLimit() != est {
						w.write(J{"ev": "Twin", "trace": k, "i": 0, "algo": algo, "lo": chunks(lo), "hi": chunks(hi), "estlo": -1, "esthi": -2, "skip": false, "why": "twins diverged from the reference run"})
						continue
					}
					o1 := s1.sample(last.start, lo, last.inflight, last.drop)
					o2 := s2.sample(last.start, hi, last.inflight, last.drop)
					skip := o1["probe"].(bool) || o2["probe"].(bool)
					w.write(J{"ev": "Twin", "trace": k, "i": 0, "algo": algo, "lo": chunks(lo), "hi": chunks(hi), "inflight": last.inflight, "drop": last.drop,
						"estlo": o1["est"], "esthi": o2["est"], "skip": skip, "why": "", "before": est, "start": last.start})
				}
			}
		}
	}
}

// aimdSUT drives a real AIMDLimit through the transitions of spec/Aimd.tla.
type aimdSUT struct {
	l     *limit.AIMDLimit
	notes []int
}

func (s *aimdSUT) applyRaw(raw json.RawMessage) (any, error) {
	var op struct {
		Op       string `json:"op"`
		Inflight int    `json:"inflight"`
		Drop     bool   `json:"drop"`
	}
	if err := json.Unmarshal(raw, &op); err != nil {
		return nil, err
	}
	s.notes = nil
	s.l.OnSample(0, 1000, op.Inflight, op.Drop)
	n := -1
	if len(s.notes) > 0 {
		n = s.notes[len(s.notes)-1]
	}
	return J{"notified": n}, nil
}
func (s *aimdSUT) observe() any { return J{"est": s.l.EstimatedLimit()} }

// TestAimdReplay: model -> code replay of the exact AIMD model.
func TestAimdReplay(t *testing.T) {
	files, _ := filepath.Glob(filepath.Join(filepath.Dir(inFile(t, "x")), "aimd_*.ndjson"))
	var reps []*gReport
	for _, f := range files {
		rep := replayGraph(t, f, func(raw json.RawMessage) (sut, error) {
			var c struct{ BNum, BDen, Inc, Initial int }
			if err := json.Unmarshal(raw, &c); err != nil {
				return nil, err
			}
			s := &aimdSUT{l: limit.NewAIMDLimit("a", c.Initial, float64(c.BNum)/float64(c.BDen), c.Inc, nil)}
			s.l.NotifyOnChange(func(v int) { s.notes = append(s.notes, v) })
			return s, nil
		})
		t.Logf("%s: %s", filepath.Base(f), rep)
		reps = append(reps, rep)
	}
	writeJSON(t, filepath.Join(outDir(t), "aimd_replay.json"), reps)
}

// vegasSUT drives a real VegasLimit (smoothing 1, default functions) through the transitions of
// spec/VegasModel.tla; the probe decision is forced through the verif accessor.
type vegasSUT struct{ l *limit.VegasLimit }

const vegasUnit = int64(1000)

func (s *vegasSUT) applyRaw(raw json.RawMessage) (any, error) {
	var op struct {
		Op       string `json:"op"`
		Rtt      int64  `json:"rtt"`
		Inflight int    `json:"inflight"`
		Drop     bool   `json:"drop"`
	}
	if err := json.Unmarshal(raw, &op); err != nil {
		return nil, err
	}
	if op.Op == "probe" {
		s.l.VerifSetProbeJitter(0)
	} else {
		s.l.VerifSetProbeJitter(1e12)
	}
	s.l.OnSample(0, op.Rtt*vegasUnit, op.Inflight, op.Drop)
	return J{"ok": true}, nil
}
func (s *vegasSUT) observe() any {
	return J{"est": s.l.EstimatedLimit(), "noload": int(s.l.RTTNoLoad() / vegasUnit)}
}

// TestVegasReplay: model -> code replay of the exact Vegas model.
func TestVegasReplay(t *testing.T) {
	files, _ := filepath.Glob(filepath.Join(filepath.Dir(inFile(t, "x")), "vegas_*.ndjson"))
	var reps []*gReport
	for _, f := range files {
		rep := replayGraph(t, f, func(raw json.RawMessage) (sut, error) {
			var c struct{ Max, Initial int }
			if err := json.Unmarshal(raw, &c); err != nil {
				return nil, err
			}
			return &vegasSUT{l: limit.NewVegasLimitWithRegistry("v", c.Initial, nil, c.Max, 1.0, nil, nil, nil, nil, nil, 30, nil, nil)}, nil
		})
		t.Logf("%s: %s", filepath.Base(f), rep)
		reps = append(reps, rep)
	}
	writeJSON(t, filepath.Join(outDir(t), "vegas_replay.json"), reps)
}

// TestNotifyAttack realises, in real time, the interleaving in which two samples that both change the estimate
// race (C16): the listener is parked inside the first notification; a second sample is started. On a tree where
// listeners are notified under the algorithm's lock the second sample cannot proceed; where it can, its
// notification overtakes the parked one. Once both have returned the last value delivered must equal
// EstimatedLimit.
func TestNotifyAttack(t *testing.T) {
	w := newNdWriter(t, filepath.Join(outDir(t), "notify_trace.ndjson"))
	defer w.close()
	wait := 30 * time.Millisecond
	if thorough() {
		wait = 200 * time.Millisecond
	}
	overtook := 0
	k := 0
	for _, algo := range []string{"aimd", "vegas", "gradient", "gradient2"} {
		for rep := 0; rep < 3; rep++ {
			s := newAlgoSUT(newRng(seed()+uint64(rep), uint64(k)), algo, "none")
			// prime: a baseline and a few saturated samples
			for i := 0; i < 3; i++ {
				s.outer.OnSample(0, 1000, s.outer.EstimatedLimit()+1, false)
			}
			var mu sync.Mutex
			var delivered []int
			first := true
			parked := make(chan struct{})
			resume := make(chan struct{})
			// the listener applies the value at the end of the call (like a strategy's SetLimit behind a slow path)
			s.outer.NotifyOnChange(func(v int) {
				mu.Lock()
				f := first
				first = false
				mu.Unlock()
				if f {
					close(parked)
					<-resume
				}
				mu.Lock()
				delivered = append(delivered, v)
				mu.Unlock()
			})
			doneA, doneB := make(chan struct{}), make(chan struct{})
			go func() { s.outer.OnSample(0, 1000, s.outer.EstimatedLimit()+1, true); close(doneA) }()
			select {
			case <-parked:
			case <-doneA:
				// this sample did not notify (e.g. a probe): nothing to race with
				close(resume)
				k++
				continue
			case <-time.After(time.Second):
				t.Fatalf("%s: first sample neither notified nor returned", algo)
			}
			go func() { s.outer.OnSample(0, 1000, 100000, true); close(doneB) }()
			select {
			case <-doneB:
				overtook++
			case <-time.After(wait):
			}
			close(resume)
			<-doneA
			<-doneB
			mu.Lock()
			last := -1
			if len(delivered) > 0 {
				last = delivered[len(delivered)-1]
			}
			mu.Unlock()
			w.write(J{"ev": "Concurrent", "trace": k, "i": 0, "algo": algo, "last": last, "est": s.outer.EstimatedLimit(), "delivered": delivered})
			k++
		}
	}
	writeJSON(t, filepath.Join(outDir(t), "notify.json"), J{"scenarios": k, "second_sample_overtook_the_parked_notification": overtook})
}

// TestFunctionCases calls the real limit/functions (integer and float variants) for every case TLC printed from
// spec/LimitFunctions.tla.
func TestFunctionCases(t *testing.T) {
	var mism []J
	n := 0
	for _, raw := range readNd(t, inFile(t, "function_cases.ndjson")) {
		var c struct {
			B     int `json:"b"`
			N     int `json:"n"`
			Log10 int `json:"log10"`
			Sqrt  int `json:"sqrt"`
		}
		if err := json.Unmarshal(raw, &c); err != nil {
			t.Fatal(err)
		}
		n++
		got := func() (g J) {
			defer func() {
				if r := recover(); r != nil {
					g = J{"panic": fmt.Sprint(r)}
				}
			}()
			lf := functions.Log10RootFloatFunction(float64(c.B))
			g = J{"log10": functions.Log10RootFunction(c.B)(c.N), "sqrt": functions.SqrtRootFunction(c.B)(c.N), "fixed": functions.FixedQueueSizeFunc(c.B)(c.N)}
			// float variant: anywhere inside [n, n+1) the integer part of the step is the same
			for _, frac := range []float64{0, 0.5, 0.999} {
				v := lf(float64(c.N) + frac)
				if int(math.Floor(v)) != c.Log10 {
					g["log10float"] = v
				}
			}
			return g
		}()
		if got["panic"] != nil || got["log10"] != c.Log10 || got["sqrt"] != c.Sqrt || got["fixed"] != c.B || got["log10float"] != nil {
			mism = append(mism, J{"case": c, "got": got})
		}
	}
	writeJSON(t, filepath.Join(outDir(t), "function_cases.json"), J{"cases": n, "mismatches": mism})
}

// TestBoundsGrid pins each floating-point algorithm on its floor (a few hundred overload samples) and on its ceiling
// (healthy saturated samples) for a grid of smoothing factors x minimum / maximum limits, and logs the range of the
// reported estimate per grid point: rounding at the clamps depends on the exact (smoothing, bound) pair, which random
// configurations hit once in a hundred (C04).
func TestBoundsGrid(t *testing.T) {
	w := newNdWriter(t, filepath.Join(outDir(t), "grid_trace.ndjson"))
	defer w.close()
	step := 5
	if thorough() {
		step = 1
	}
	k := 0
	run := func(algo string, floor, ceil int, smoothing float64, l core.Limit) {
		mn, mx := math.MaxInt64, math.MinInt64
		panicked := ""
		note := func() {
			e := l.EstimatedLimit()
			if e < mn {
				mn = e
			}
			if e > mx {
				mx = e
			}
		}
		func() {
			defer func() {
				if r := recover(); r != nil {
					panicked = fmt.Sprint(r)
				}
			}()
			note()
			l.OnSample(0, 1000, 1, false) // a baseline
			for i := 0; i < 12; i++ {
				l.OnSample(0, 1000, l.EstimatedLimit()+1, false)
				note()
			}
			for i := 0; i < 320; i++ { // overload: 1000 x the baseline, saturated, every third one a drop
				l.OnSample(0, 1000000, l.EstimatedLimit()+1, i%3 == 2)
				note()
			}
			for i := 0; i < 400; i++ { // healthy again, saturated
				l.OnSample(0, 1000, l.EstimatedLimit()+1, false)
				note()
			}
		}()
		w.write(J{"ev": "Dwell", "trace": k, "i": 0, "algo": algo, "floor": floor, "ceil": ceil, "smoothing": fmt.Sprint(smoothing), "minest": mn, "maxest": mx,
			"minok": mn != math.MinInt64 && mn != math.MaxInt64, "panic": panicked != "", "what": panicked})
		k++
	}
	for si := step; si <= 100; si += step {
		smoothing := float64(si) / 100
		for _, floor := range []int{1, 2, 3, 5, 6, 7, 12, 13, 20} {
			for _, ceil := range []int{40, 100} {
				g2, err := limit.NewGradient2Limit("grid", ceil/2, ceil, floor, func(int) int { return 1 }, smoothing, 600, nil, core.EmptyMetricRegistryInstance)
				if err != nil {
					t.Fatal(err)
				}
				run("gradient2", floor, ceil, smoothing, g2)
				g := limit.NewGradientLimitWithRegistry("grid", ceil/2, floor, ceil, smoothing, functions.FixedQueueSizeFunc(1), 2, limit.ProbeDisabled, nil, core.EmptyMetricRegistryInstance)
				run("gradient", floor, ceil, smoothing, g)
			}
		}
		for _, ceil := range []int{20, 100, 1000} {
			v := limit.NewVegasLimitWithRegistry("grid", ceil/2, nil, ceil, smoothing, nil, nil, nil, nil, nil, 30, nil, core.EmptyMetricRegistryInstance)
			run("vegas", 1, ceil, smoothing, v)
		}
	}
	writeJSON(t, filepath.Join(outDir(t), "grid.json"), J{"grid_points": k})
}

// set performs an explicit SetLimit on the settable limit behind the outer object and returns the observation record.
func (s *algoSUT) set(v int) J {
	for k := range s.notes {
		delete(s.notes, k)
	}
	s.reg.takeSamples()
	s.settable.SetLimit(v)
	notes := J{}
	for id, vs := range s.notes {
		notes[fmt.Sprint(id)] = append([]int{}, vs...)
	}
	return J{"est": s.outer.EstimatedLimit(), "class": "ok", "panic": false, "notes": notes}
}

// TestSettableRandom records sample / set / registration sequences of the two limits that no sample moves - the
// settable limit (explicit sets) and the fixed limit - bare and behind the traced and windowed wrappers, and, in real
// time, two explicit sets overtaking each other (C16: for all limit implementations, all sample / set sequences).
func TestSettableRandom(t *testing.T) {
	n := envInt("VERIF_N", 60)
	w := newNdWriter(t, filepath.Join(outDir(t), "settable_trace.ndjson"))
	defer w.close()
	wraps := []string{"none", "traced", "windowed"}
	sets := 0
	for k := 0; k < n; k++ {
		r := newRng(seed(), uint64(70000+k))
		algo := []string{"settable", "settable", "fixed"}[k%3]
		s := newAlgoSUT(r, algo, wraps[(k/3)%3])
		nl := r.intn(3)
		for i := 0; i < nl; i++ {
			s.register()
		}
		w.write(J{"ev": "Reset", "trace": k, "cfg": s.cfg, "obs": J{"est": s.outer.EstimatedLimit(), "listeners": nl}})
		clock := int64(1e9)
		for i := 1; i <= r.between(20, 80); i++ {
			switch {
			case r.chance(1, 10) && s.nl < 3:
				s.register()
				w.write(J{"ev": "Register", "trace": k, "i": i, "listeners": s.nl})
			case s.settable != nil && r.chance(1, 3):
				v := r.between(0, 90)
				if r.chance(1, 5) {
					v = s.outer.EstimatedLimit() // a set to the current value
				}
				sets++
				w.write(J{"ev": "Set", "trace": k, "i": i, "v": v, "obs": s.set(v)})
			default:
				rtt, infl, drop := pickRTT(r, 1000), r.between(0, 40), r.chance(1, 6)
				if rtt > 1<<40 {
					rtt = 3000
				}
				o := s.sample(clock, rtt, infl, drop)
				clock += 150e6
				w.write(J{"ev": "Sample", "trace": k, "i": i, "in": J{"rtt": chunks(rtt), "rttf": chunks(int64(float64(rtt))), "inflight": infl, "drop": drop, "mode": "free", "zero": rtt == 0}, "obs": o})
			}
		}
	}
	// listeners registered at once from several goroutines (directly and through the traced wrapper, which takes no lock of
	// its own): every one of them is told of the next change
	regRounds := envInt("VERIF_REGS", 300)
	for ai, algo := range []string{"aimd", "vegas", "gradient", "gradient2", "settable"} {
		lost, total := 0, 0
		for round := 0; round < regRounds; round++ {
			var inner core.Limit
			var set func(int)
			switch algo {
			case "aimd":
				inner = limit.NewAIMDLimit("reg", 10, 0.9, 1, core.EmptyMetricRegistryInstance)
			case "vegas":
				inner = limit.NewDefaultVegasLimitWithLimit("reg", 10, nil, core.EmptyMetricRegistryInstance)
			case "gradient":
				inner = limit.NewGradientLimitWithRegistry("reg", 50, 1, 200, 0.2, nil, 2, limit.ProbeDisabled, nil, core.EmptyMetricRegistryInstance)
			case "gradient2":
				g2, err := limit.NewGradient2Limit("reg", 50, 200, 1, nil, 0.2, 10, nil, core.EmptyMetricRegistryInstance)
				if err != nil {
					t.Fatal(err)
				}
				inner = g2
			default:
				st := limit.NewSettableLimit("reg", 10, core.EmptyMetricRegistryInstance)
				inner, set = st, st.SetLimit
			}
			traced := limit.NewTracedLimit(inner, limit.NoopLimitLogger{})
			const g = 8
			var called [g]int32
			var wg sync.WaitGroup
			var ready int32
			for x := 0; x < g; x++ {
				wg.Add(1)
				go func(x int) {
					defer wg.Done()
					atomic.AddInt32(&ready, 1)
					for atomic.LoadInt32(&ready) < g { // spin barrier: all registrations at the same instant
					}
					target := inner
					if x%2 == 1 {
						target = traced
					}
					target.NotifyOnChange(func(int) { atomic.StoreInt32(&called[x], 1) })
				}(x)
			}
			wg.Wait()
			before := inner.EstimatedLimit()
			for i := 0; i < 400 && inner.EstimatedLimit() == before; i++ {
				if set != nil {
					set(before + 5)
				} else {
					inner.OnSample(0, int64(1000+i%3), before*2+10, false) // healthy, saturated: every algorithm grows
				}
			}
			if inner.EstimatedLimit() == before {
				continue // no change to be told of
			}
			total++
			for x := 0; x < g; x++ {
				if atomic.LoadInt32(&called[x]) == 0 {
					lost++
					break
				}
			}
		}
		w.write(J{"ev": "Registered", "trace": n + 10 + ai, "i": 0, "algo": algo, "rounds": total, "lost": lost})
	}
	// the estimate as a listener sees it while it is being notified of an explicit set
	for wi, wrap := range wraps {
		st := limit.NewSettableLimit("inside", 10, core.EmptyMetricRegistryInstance)
		var outer core.Limit = st
		switch wrap {
		case "traced":
			outer = limit.NewTracedLimit(st, limit.NoopLimitLogger{})
		case "windowed":
			wl, err := limit.NewWindowedLimit("inside", 1e8, 1e9, 10, 0, st, core.EmptyMetricRegistryInstance)
			if err != nil {
				t.Fatal(err)
			}
			outer = wl
		}
		pairs := [][2]int{} // (an empty list, not null, if nobody is told)
		outer.NotifyOnChange(func(v int) { pairs = append(pairs, [2]int{v, outer.EstimatedLimit()}) })
		for _, v := range []int{7, 25, 25, 0, 3} {
			st.SetLimit(v)
		}
		w.write(J{"ev": "Inside", "trace": n + wi, "i": 0, "algo": "settable", "wrap": wrap, "pairs": pairs, "sets": 5})
	}
	// explicit sets issued at once by free-running goroutines (one each, behind a start barrier): whatever order they take
	// effect in, once all have returned the last value delivered to the listener is the estimate. (Holding one set inside
	// a listener and issuing two more never reorders them - the mutex hands over in arrival order - so this is a sample of
	// the scheduler's interleavings, a few tens of thousands of them.)
	races, mismatches := 0, 0
	for rep := 0; rep < envInt("VERIF_RACES", 20000); rep++ {
		st := limit.NewSettableLimit("race", 1, core.EmptyMetricRegistryInstance)
		last := -1
		// every third burst goes through the traced wrapper, with a goroutine polling the wrapper's estimate meanwhile
		var outer core.Limit = st
		stopPoll := make(chan struct{})
		var pollDone sync.WaitGroup
		if rep%3 == 2 {
			outer = limit.NewTracedLimit(st, limit.NoopLimitLogger{})
			pollDone.Add(1)
			go func() {
				defer pollDone.Done()
				for {
					select {
					case <-stopPoll:
						return
					default:
						outer.EstimatedLimit()
					}
				}
			}()
		}
		outer.NotifyOnChange(func(v int) { last = v }) // runs under the limit's own mutex
		var wg sync.WaitGroup
		start := make(chan struct{})
		g := 4 + rep%13
		for x := 0; x < g; x++ {
			wg.Add(1)
			go func(v int) {
				defer wg.Done()
				<-start
				st.SetLimit(v)
			}(x*100 + 2)
		}
		close(start)
		wg.Wait()
		close(stopPoll)
		pollDone.Wait()
		races++
		if last != outer.EstimatedLimit() {
			mismatches++
		}
		if last != outer.EstimatedLimit() || rep%500 == 0 { // every mismatch and a sample of the rest go to the contract
			w.write(J{"ev": "Concurrent", "trace": n + rep, "i": 0, "algo": "settable", "last": last, "est": outer.EstimatedLimit(), "delivered": []int{last}, "traced": rep%3 == 2})
		}
	}
	writeJSON(t, filepath.Join(outDir(t), "settable.json"), J{"sequences": n, "sets": sets, "set_races": races, "last_delivered_differs_from_estimate": mismatches})
}
