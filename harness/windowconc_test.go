//go:build verif

package harness

import (
	"context"
	"encoding/json"
	"fmt"
	"path/filepath"
	"sync"
	"testing"
	"time"

	"github.com/platinummonkey/go-concurrency-limits/core"
	"github.com/platinummonkey/go-concurrency-limits/limiter"
	"github.com/platinummonkey/go-concurrency-limits/strategy"
)

// winConcSUT drives a real DefaultLimiter through the transitions of spec/WindowConc.tla: completions are started
// one at a time, each parks at the schedule point default.afterFold (between its fold and its update) until the
// graph's upd step lets it go.  Time is the bubble's.
type winConcSUT struct {
	mu   sync.Mutex
	lim  *ScriptedLimit
	dl   *limiter.DefaultLimiter
	ls   map[int]core.Listener
	cur  *winGate
	gate map[int]*winGate
}

type winGate struct {
	parked, resume, done chan struct{}
}

type winConcCfg struct {
	WSize  int `json:"wsize"`
	Pre    int `json:"pre"`
	PreRtt int `json:"prertt"`
	MinW   int `json:"minw"`
	MaxW   int `json:"maxw"`
	N      int `json:"n"`
}

var lastWinConc *winConcSUT

// shutdown lets every parked completion finish (the bubble must not end with blocked goroutines).
func (s *winConcSUT) shutdown() {
	limiter.VerifPoint = nil
	for _, g := range s.gate {
		select {
		case <-g.done:
		default:
			select {
			case <-g.resume:
			default:
				close(g.resume)
			}
			<-g.done
		}
	}
}

func mkWinConc(raw json.RawMessage) (sut, error) {
	if lastWinConc != nil {
		lastWinConc.shutdown()
		lastWinConc = nil
	}
	var cfg winConcCfg
	if err := json.Unmarshal(raw, &cfg); err != nil {
		return nil, err
	}
	s := &winConcSUT{lim: &ScriptedLimit{est: 20}, ls: map[int]core.Listener{}, gate: map[int]*winGate{}}
	dl, err := limiter.NewDefaultLimiter(s.lim, int64(cfg.MinW)*int64(tickDur), int64(cfg.MaxW)*int64(tickDur), 0, cfg.WSize,
		strategy.NewSimpleStrategy(20), nil, nil)
	if err != nil {
		return nil, err
	}
	s.dl = dl
	for i := 0; i < cfg.Pre; i++ {
		l, ok := dl.Acquire(context.Background())
		if !ok {
			return nil, fmt.Errorf("prefill: refused")
		}
		time.Sleep(time.Duration(cfg.PreRtt) * tickDur)
		l.OnSuccess()
	}
	for p := 1; p <= cfg.N; p++ {
		l, ok := dl.Acquire(context.Background())
		if !ok {
			return nil, fmt.Errorf("acquire %d: refused", p)
		}
		s.ls[p] = l
	}
	limiter.VerifPoint = func(point string) {
		if point != "default.afterFold" {
			return
		}
		s.mu.Lock()
		g := s.cur
		s.cur = nil
		s.mu.Unlock()
		if g != nil {
			close(g.parked)
			<-g.resume
		}
	}
	lastWinConc = s
	return s, nil
}

func (s *winConcSUT) observe() any {
	count, min, maxin, drop := s.dl.VerifWindow()
	m := int64(-1)
	if min < 1<<62 {
		m = min / int64(tickDur)
		if min%int64(tickDur) != 0 {
			m = -2
		}
	}
	s.lim.mu.Lock()
	n := s.lim.n
	s.lim.mu.Unlock()
	return J{"win": J{"count": count, "min": m, "maxin": maxin, "drop": drop}, "nrep": n}
}

func (s *winConcSUT) applyRaw(raw json.RawMessage) (any, error) {
	var op struct {
		Op      string `json:"op"`
		P       int    `json:"p"`
		Outcome string `json:"outcome"`
	}
	if err := json.Unmarshal(raw, &op); err != nil {
		return nil, err
	}
	s.lim.mu.Lock()
	before := len(s.lim.Samples)
	s.lim.mu.Unlock()
	switch op.Op {
	case "tick":
		time.Sleep(tickDur)
	case "fold":
		l := s.ls[op.P]
		if l == nil || s.gate[op.P] != nil {
			return nil, fmt.Errorf("fold %d: no outstanding call", op.P)
		}
		g := &winGate{parked: make(chan struct{}), resume: make(chan struct{}), done: make(chan struct{})}
		s.gate[op.P] = g
		s.mu.Lock()
		s.cur = g
		s.mu.Unlock()
		go func() {
			defer close(g.done)
			if op.Outcome == "dropped" {
				l.OnDropped()
			} else {
				l.OnSuccess()
			}
		}()
		select {
		case <-g.parked:
		case <-g.done:
			return nil, fmt.Errorf("fold %d: the completion returned without passing default.afterFold", op.P)
		}
	case "upd":
		g := s.gate[op.P]
		if g == nil {
			return nil, fmt.Errorf("upd %d: not folded", op.P)
		}
		close(g.resume)
		<-g.done
	default:
		return nil, fmt.Errorf("unknown op %q", op.Op)
	}
	s.lim.mu.Lock()
	samples := append([]J{}, s.lim.Samples[before:]...)
	s.lim.mu.Unlock()
	return J{"samples": samples}, nil
}

// TestWindowConc replays the state graphs of spec/WindowConc.tla (every interleaving of the folds and updates of
// three concurrent completions, clock ticks in between) on real DefaultLimiters.
func TestWindowConc(t *testing.T) {
	files, _ := filepath.Glob(filepath.Join(filepath.Dir(inFile(t, "x")), "windowconc_*.ndjson"))
	if len(files) == 0 {
		t.Fatal("no windowconc_*.ndjson graphs")
	}
	var reps []*gReport
	for _, f := range files {
		f := f
		inBubble(t, func(t *testing.T) {
			rep := replayGraph(t, f, mkWinConc)
			if lastWinConc != nil {
				lastWinConc.shutdown()
				lastWinConc = nil
			}
			t.Logf("%s: %s", filepath.Base(f), rep)
			reps = append(reps, rep)
		})
	}
	writeJSON(t, filepath.Join(outDir(t), "windowconc_replay.json"), reps)
}
