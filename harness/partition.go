//go:build verif

package harness

import (
	"context"
	"fmt"
	"strings"
	"sync"

	"github.com/platinummonkey/go-concurrency-limits/core"
	"github.com/platinummonkey/go-concurrency-limits/strategy"
	"github.com/platinummonkey/go-concurrency-limits/strategy/matchers"
)

// partCfg mirrors the cfg record of spec/Partition.tla.
type partObjCfg struct {
	Name  string   `json:"name"`
	Num   int      `json:"num"`
	Match []string `json:"match"`
	Ci    bool     `json:"ci"` // the library's string matcher is built case-insensitive
	Built int      `json:"built"`
}

type partCfg struct {
	Kind    string                `json:"kind"`
	Den     int                   `json:"den"`
	Limit   int                   `json:"limit"`
	Objs    map[string]partObjCfg `json:"objs"`
	Init    []string              `json:"init"`
	Variant map[string]string     `json:"variant"`
	Lower   map[string]string     `json:"lower,omitempty"`
}

type partOp struct {
	Op  string `json:"op"`
	Key string `json:"key"`
	Bin string `json:"bin,omitempty"`
	Obj string `json:"obj,omitempty"`
	V   int    `json:"v"`
}

const unknownBin = "<unknown>"

// partSUT drives a real LookupPartitionStrategy or PredicatePartitionStrategy and keeps the
// book-keeping the code does not expose (outstanding tokens, which objects the code reported
// as registered), all of it derived from the code's own return values.
type partSUT struct {
	cfg    partCfg
	reg    *RecordingRegistry
	lookup *strategy.LookupPartitionStrategy
	pred   *strategy.PredicatePartitionStrategy
	lobj   map[string]*strategy.LookupPartition
	pobj   map[string]*strategy.PredicatePartition
	ids    []string                        // sorted object ids
	order  []string                        // registered objects (registration order), from return values
	tokens map[string][]core.StrategyToken // by bin

	// what the partitions' own predicates saw while a removal evaluated them: the in-flight count of each partition at
	// the moment it was removed, per removing goroutine; parkTry (if set) is called when an acquirer's context reaches
	// the predicate of object parkObj
	remMu     sync.Mutex
	remCounts map[int64]map[string]int
	parkObj   string
	parkTry   func()
}

type removalMark struct{}

func removalCtx(ctx context.Context) context.Context {
	return context.WithValue(ctx, removalMark{}, true)
}

// watch wraps the predicate of object id: during a removal it notes the partition's in-flight count when it matches.
func (s *partSUT) watch(id string, inner func(context.Context) bool) func(context.Context) bool {
	return func(ctx context.Context) bool {
		r := inner(ctx)
		if ctx.Value(removalMark{}) != nil {
			if r {
				s.remMu.Lock()
				g := goid()
				if s.remCounts[g] == nil {
					s.remCounts[g] = map[string]int{}
				}
				s.remCounts[g][id] = s.pobj[id].BusyCount()
				s.remMu.Unlock()
			}
		} else if r && s.parkTry != nil && id == s.parkObj {
			s.parkTry()
		}
		return r
	}
}

// removeMatching calls RemovePartitionsMatching and returns which objects were removed and their counts at removal.
func (s *partSUT) removeMatching(key string) (ok bool, ids J, counts J, gone map[string]bool) {
	removed, ok := s.pred.RemovePartitionsMatching(removalCtx(keyCtx("predicate", key)))
	s.remMu.Lock()
	seen := s.remCounts[goid()]
	delete(s.remCounts, goid())
	s.remMu.Unlock()
	ids, counts, gone = J{}, J{}, map[string]bool{}
	for _, id := range s.ids {
		ids[id], counts[id] = false, 0
	}
	for _, p := range removed {
		for _, id := range s.ids {
			if s.pobj[id] == p {
				ids[id], gone[id] = true, true
				c, has := seen[id]
				if !has {
					c = -1 // removed without its predicate having been asked
				}
				counts[id] = c
			}
		}
	}
	return ok, ids, counts, gone
}

func sortedKeys[V any](m map[string]V) []string {
	ks := make([]string, 0, len(m))
	for k := range m {
		ks = append(ks, k)
	}
	sortStrings(ks)
	return ks
}

func sortStrings(a []string) {
	for i := 1; i < len(a); i++ {
		for j := i; j > 0 && a[j] < a[j-1]; j-- {
			a[j], a[j-1] = a[j-1], a[j]
		}
	}
}

func keyCtx(kind, key string) context.Context {
	switch key {
	case "<none>": // a request that carries no partition key at all
		return context.Background()
	case "<int>": // a key of another type than string: no partition is named by it, no string matcher matches it
		if kind == "lookup" {
			return context.WithValue(context.Background(), matchers.LookupPartitionContextKey, 7)
		}
		return context.WithValue(context.Background(), matchers.StringPredicateContextKey, 7)
	}
	if kind == "lookup" {
		return context.WithValue(context.Background(), matchers.LookupPartitionContextKey, key)
	}
	return context.WithValue(context.Background(), matchers.StringPredicateContextKey, key)
}

// multiMatch is the disjunction of the library's own string matchers, one per key.
func multiMatch(keys []string, ci bool) func(ctx context.Context) bool {
	var ms []func(ctx context.Context) bool
	for _, k := range keys {
		ms = append(ms, matchers.StringPredicateMatcher(k, ci))
	}
	return func(ctx context.Context) bool {
		for _, m := range ms {
			if m(ctx) {
				return true
			}
		}
		return false
	}
}

// lowerMap is the case folding the model uses for case-insensitive matchers (TLA+ has no string functions).
func lowerMap(keys ...string) map[string]string {
	m := map[string]string{}
	for _, k := range keys {
		m[k] = strings.ToLower(k)
	}
	return m
}

func newPartSUT(cfg partCfg) (*partSUT, error) {
	s := &partSUT{cfg: cfg, reg: newRecordingRegistry(), tokens: map[string][]core.StrategyToken{}, remCounts: map[int64]map[string]int{},
		lobj: map[string]*strategy.LookupPartition{}, pobj: map[string]*strategy.PredicatePartition{}}
	s.ids = sortedKeys(cfg.Objs)
	for _, id := range s.ids {
		o := cfg.Objs[id]
		pct := float64(o.Num) / float64(cfg.Den)
		if cfg.Kind == "lookup" {
			built := o.Built
			if built == 0 {
				built = 1
			}
			s.lobj[id] = strategy.NewLookupPartitionWithMetricRegistry(o.Name, pct, int32(built), s.reg)
		} else {
			s.pobj[id] = strategy.NewPredicatePartitionWithMetricRegistry(id, pct, s.watch(id, multiMatch(o.Match, o.Ci)), s.reg)
		}
	}
	var err error
	if cfg.Kind == "lookup" {
		m := map[string]*strategy.LookupPartition{}
		for _, id := range cfg.Init {
			m[cfg.Objs[id].Name] = s.lobj[id]
		}
		s.lookup, err = strategy.NewLookupPartitionStrategyWithMetricRegistry(m, nil, int32(cfg.Limit), s.reg)
	} else {
		var ps []*strategy.PredicatePartition
		for _, id := range cfg.Init {
			ps = append(ps, s.pobj[id])
		}
		s.pred, err = strategy.NewPredicatePartitionStrategyWithMetricRegistry(ps, int32(cfg.Limit), s.reg)
	}
	if err != nil {
		return nil, err
	}
	s.order = append([]string{}, cfg.Init...)
	return s, nil
}

func (s *partSUT) strat() core.Strategy {
	if s.lookup != nil {
		return s.lookup
	}
	return s.pred
}

func (s *partSUT) objBusy(id string) int {
	if s.lookup != nil {
		return s.lobj[id].BusyCount()
	}
	return s.pobj[id].BusyCount()
}

func (s *partSUT) objLimit(id string) int {
	if s.lookup != nil {
		return s.lobj[id].Limit()
	}
	return s.pobj[id].Limit()
}

func (s *partSUT) totals() (limit, busy int) {
	if s.lookup != nil {
		return s.lookup.Limit(), s.lookup.BusyCount()
	}
	return s.pred.Limit(), s.pred.BusyCount()
}

// obs is the projection Obs(cfg, s) of spec/Partition.tla read back from the real objects.
func (s *partSUT) obs() J {
	limit, busy := s.totals()
	ob := J{}
	for _, id := range s.ids {
		ob[id] = s.objBusy(id)
	}
	bl := J{}
	for _, id := range s.order {
		bl[id] = s.objLimit(id)
	}
	order := []string{}
	ul := 0
	if s.lookup != nil {
		ul, _ = s.reg.Gauge(core.MetricPartitionLimit, strategy.PartitionTagName+":"+unknownBin)
	} else {
		order = append(order, s.order...)
	}
	return J{"limit": limit, "busy": busy, "ob": ob, "bl": bl, "order": order, "ul": ul}
}

// apply performs one operation on the real strategy and returns the observed result record.
func (s *partSUT) apply(op partOp) (res J, err error) {
	defer func() {
		if r := recover(); r != nil {
			err = fmt.Errorf("panic: %v", r)
		}
	}()
	switch op.Op {
	case "try":
		before := map[string]int{}
		for _, id := range s.ids {
			before[id] = s.objBusy(id)
		}
		_, busyBefore := s.totals()
		s.reg.takeSamples()
		tok, ok := s.strat().TryAcquire(keyCtx(s.cfg.Kind, op.Key))
		// the in-flight samples emitted by this call (exactly one, tagged with the partition charged, for a grant)
		sample := J{"tag": "", "v": 0}
		nsamp := 0
		for _, sm := range s.reg.takeSamples() {
			if sm.ID == core.MetricInFlight {
				nsamp++
				tag := ""
				if len(sm.Tags) > 0 {
					tag = sm.Tags[0]
				}
				sample = J{"tag": tag, "v": int(sm.Value)}
			}
		}
		if nsamp > 1 {
			sample = J{"tag": fmt.Sprintf("?%d samples", nsamp), "v": 0}
		}
		bin := ""
		if ok {
			if tok == nil || !tok.IsAcquired() {
				return J{"ok": true, "bin": "?token", "sample": sample}, nil
			}
			for _, id := range s.ids {
				if s.objBusy(id) == before[id]+1 {
					bin = id
				}
			}
			_, busyAfter := s.totals()
			if bin == "" && busyAfter == busyBefore+1 && s.lookup != nil {
				bin = unknownBin
			}
			s.tokens[bin] = append(s.tokens[bin], tok)
		} else {
			if tok != nil && tok.IsAcquired() {
				return J{"ok": false, "bin": "?token-acquired", "sample": sample}, nil
			}
			bin = "?"
		}
		return J{"ok": ok, "bin": bin, "sample": sample}, nil
	case "rel":
		ts := s.tokens[op.Bin]
		if len(ts) == 0 {
			return nil, fmt.Errorf("harness holds no token of bin %q", op.Bin)
		}
		ts[len(ts)-1].Release()
		s.tokens[op.Bin] = ts[:len(ts)-1]
		return J{"ok": true}, nil
	case "set":
		s.strat().SetLimit(op.V)
		return J{"ok": true}, nil
	case "add":
		var ok bool
		if s.lookup != nil {
			ok = s.lookup.AddPartition(s.cfg.Objs[op.Obj].Name, s.lobj[op.Obj])
		} else {
			ok = s.pred.AddPartition(s.pobj[op.Obj])
		}
		if ok {
			s.order = append(s.order, op.Obj)
		}
		return J{"ok": ok}, nil
	case "rem":
		if s.lookup != nil {
			busy, ok := s.lookup.RemovePartition(op.Key)
			if ok {
				var keep []string
				for _, id := range s.order {
					if s.cfg.Objs[id].Name != op.Key {
						keep = append(keep, id)
					}
				}
				s.order = keep
			}
			return J{"ok": ok, "busy": busy}, nil
		}
		ok, ids, counts, gone := s.removeMatching(op.Key)
		var keep []string
		for _, id := range s.order {
			if !gone[id] {
				keep = append(keep, id)
			}
		}
		s.order = keep
		return J{"ok": ok, "removed": ids, "counts": counts}, nil
	}
	return nil, fmt.Errorf("unknown op %q", op.Op)
}
