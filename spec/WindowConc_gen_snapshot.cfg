SPECIFICATION Spec
CONSTANTS
  P = {1, 2, 3}
  Dropped = {3}
  WSize = 10
  Pre = 9
  PreRtt = 5
  MinW = 1
  MaxW = 3
  MaxClock = 2
  Reread = FALSE
  Emit = TRUE
INVARIANT SeenOnce
INVARIANT OnlyReady
CHECK_DEADLOCK FALSE
