//go:build verif

package harness

import (
	"path/filepath"
	"testing"

	"github.com/platinummonkey/go-concurrency-limits/limit"
)

// TestWindowedRandom records seeded OnSample sequences of real WindowedLimits over a recording
// delegate: every position of a drop inside a window, sub-threshold samples, drop-only windows.
func TestWindowedRandom(t *testing.T) {
	n := envInt("VERIF_N", 150)
	w := newNdWriter(t, filepath.Join(outDir(t), "windowed_trace.ndjson"))
	defer w.close()
	const period = int64(100e6)
	for k := 0; k < n; k++ {
		r := newRng(seed(), uint64(k))
		wsize := r.between(10, 14)
		thr := []int{0, 1, 5, 40}[r.intn(4)]
		del := &ScriptedLimit{est: r.between(1, 50), script: []int{r.between(1, 50), r.between(1, 50), r.between(1, 50)}}
		wl, err := limit.NewWindowedLimit("win", period, period, int32(wsize), int64(thr), del, nil)
		if err != nil {
			t.Fatal(err)
		}
		w.write(J{"ev": "Reset", "trace": k, "cfg": J{"wsize": wsize, "threshold": thr}})
		T := 1
		nops := r.between(30, 120)
		for i := 0; i < nops; i++ {
			if r.chance(1, 3) {
				T += r.between(1, 2)
			}
			rtt := r.between(0, 60)
			if r.chance(1, 5) {
				rtt = r.between(0, 1000)
			}
			infl := r.between(0, 30)
			drop := r.chance(1, 6)
			before := len(del.Samples)
			wl.OnSample(int64(T)*period, int64(rtt), infl, drop)
			out := []J{}
			for _, s := range del.Samples[before:] {
				// ScriptedLimit reports RTTs in ticks of 1 ms: here they are plain nanoseconds
				ns := s["rtt"].(int64)*int64(tickDur)
				if rem, ok := s["rtt_ns_remainder"]; ok {
					ns += rem.(int64)
				}
				out = append(out, J{"rtt": ns, "inflight": s["inflight"], "drop": s["drop"]})
			}
			w.write(J{"ev": "Sample", "trace": k, "in": J{"t": T, "rtt": rtt, "inflight": infl, "drop": drop}, "out": out,
				"est": wl.EstimatedLimit(), "dest": del.EstimatedLimit()})
		}
	}
}
