---------------------------------- MODULE LimitFunctions ------------------------------
(* Contract of limit/functions (the step / queue-allowance functions every built-in limit      *)
(* algorithm is configured with): pure functions of the integer estimate, served from a        *)
(* pre-computed table below 1000 and computed above it.                                         *)
(*   Log10Root(b)(n) = b + max(1, floor(log10 n))                                               *)
(*   SqrtRoot(b)(n)  = max(b, max(1, floor(sqrt n)))                                            *)
(*   Fixed(q)(n)     = q                                                                        *)
(* for every n >= 0 (the algorithms never hold an estimate below 1).  TLC checks on the         *)
(* contract what the algorithms rely on - total, at least 1, monotone, no step at the table     *)
(* boundary - and prints one expected value per case; the harness calls the real functions      *)
(* (integer and float variants) for every case (C04: no look-up panics, C07: steps are never 0). *)
EXTENDS Integers, TLC, Json

CONSTANTS MaxN, Emit

Baselines == {0, 1, 4}
Extra == {9999, 10000, 99999, 100000, 999999, 1000000, 99999999, 100000000, 999999999, 1000000000}
Domain == (0..MaxN) \cup Extra

Max(a, b) == IF a > b THEN a ELSE b
RECURSIVE FloorLog10(_)
FloorLog10(n) == IF n < 10 THEN 0 ELSE 1 + FloorLog10(n \div 10)
ISqrt(n) == CHOOSE r \in 0..31623 : r * r <= n /\ (r + 1) * (r + 1) > n

Log10Root(b, n) == b + Max(1, FloorLog10(n))
SqrtRoot(b, n) == Max(b, Max(1, ISqrt(n)))

VARIABLE done
Init == /\ done = FALSE
Next == /\ ~done /\ done' = TRUE
        /\ Emit => \A b \in Baselines, n \in Domain :
                     PrintT(<<"CASE", ToJson([b |-> b, n |-> n, log10 |-> Log10Root(b, n), sqrt |-> SqrtRoot(b, n)])>>)

Small == 0..MaxN
AtLeastOne == \A n \in Domain : Log10Root(0, n) >= 1 /\ SqrtRoot(0, n) >= 1
Monotone == \A b \in Baselines, n \in Small : Log10Root(b, n) <= Log10Root(b, n + 1) /\ SqrtRoot(b, n) <= SqrtRoot(b, n + 1)
BelowItsArgument == \A n \in Domain : n >= 2 => SqrtRoot(0, n) <= n /\ Log10Root(0, n) <= n   \* max(min, q(e)) <= e has a fixed point: drop runs end
=================================================================================
