package harness

import (
	"context"
	"fmt"
	"io"
	"path/filepath"
	"sync"
	"testing"
	"time"

	golangGrpc "google.golang.org/grpc"
	"google.golang.org/grpc/codes"
	"google.golang.org/grpc/metadata"
	"google.golang.org/grpc/status"
)

// duplexStream is a ServerStream double whose RecvMsg and SendMsg stay inside the "transport" until the test
// lets them go, so that a receive and a send on one wrapped stream can overlap in a chosen order.
type duplexStream struct {
	ctx     context.Context
	mu      sync.Mutex
	ran     map[string]int
	errs    map[string]error
	entered map[string]chan struct{}
	release map[string]chan struct{}
}

func (f *duplexStream) SetHeader(metadata.MD) error  { return nil }
func (f *duplexStream) SendHeader(metadata.MD) error { return nil }
func (f *duplexStream) SetTrailer(metadata.MD)       {}
func (f *duplexStream) Context() context.Context     { return f.ctx }
func (f *duplexStream) transport(dir string) error {
	f.mu.Lock()
	f.ran[dir]++
	f.mu.Unlock()
	close(f.entered[dir])
	<-f.release[dir]
	return f.errs[dir]
}
func (f *duplexStream) SendMsg(m interface{}) error { return f.transport("send") }
func (f *duplexStream) RecvMsg(m interface{}) error { return f.transport("recv") }

// TestGrpcDuplex overlaps one RecvMsg and one SendMsg on the same wrapped stream (gRPC allows one goroutine to
// receive while another sends) in every order of entering and leaving the transport, for every grant / error /
// classification / option combination, and records each operation's own observation: the contract of
// spec/Grpc.tla is per operation, whatever else is in flight on the stream.
func TestGrpcDuplex(t *testing.T) {
	w := newNdWriter(t, filepath.Join(outDir(t), "grpc_duplex_trace.ndjson"))
	defer w.close()
	cls := []string{"success", "ignore", "dropped"}
	k := 0
	for _, cfg := range []grpcCfg{{false, false, 0}, {true, false, 1}, {false, true, 2}, {true, true, 2}} {
		for _, pattern := range []string{"recv-around-send", "send-around-recv", "both-recv-leaves-first", "both-send-leaves-first"} {
			for mask := 0; mask < 16; mask++ {
				for ci := 0; ci < 9; ci++ {
					ops := map[string]grpcOp{
						"recv": {Kind: "recv", Grant: mask&1 != 0, Err: mask&2 != 0, Cls: cls[ci%3], LeCode: "Aborted", LeErr: []string{"plain", "status", "wrapped"}[ci%3], Ctx: "live"},
						"send": {Kind: "send", Grant: mask&4 != 0, Err: mask&8 != 0, Cls: cls[ci/3], LeCode: "Unavailable", LeErr: []string{"wrapped", "plain", "status"}[ci%3], Ctx: "live"},
					}
					if !cfg.Custom && ci != 0 {
						continue // the classification is not consulted
					}
					st := newGrpcStack(cfg)
					rec := st.rec
					rec.grantBy = map[string]bool{"recv": ops["recv"].Grant, "send": ops["send"].Grant}
					fs := &duplexStream{ctx: context.Background(), ran: map[string]int{}, errs: map[string]error{},
						entered: map[string]chan struct{}{"recv": make(chan struct{}), "send": make(chan struct{})},
						release: map[string]chan struct{}{"recv": make(chan struct{}), "send": make(chan struct{})}}
					for d, op := range ops {
						if op.Err {
							fs.errs[d] = errInner
						}
					}
					rets := map[string]error{}
					done := map[string]chan struct{}{"recv": make(chan struct{}), "send": make(chan struct{})}
					first, second := "recv", "send"
					if pattern == "send-around-recv" || pattern == "both-send-leaves-first" {
						first, second = "send", "recv"
					}
					_ = st.ss(nil, fs, &golangGrpc.StreamServerInfo{FullMethod: "/svc/S"}, func(srv interface{}, ss golangGrpc.ServerStream) error {
						call := func(d string) {
							m := grpcMsg{le: ops[d].LeCode, cls: ops[d].Cls, leerr: ops[d].LeErr}
							var err error
							if d == "recv" {
								err = ss.RecvMsg(m)
							} else {
								err = ss.SendMsg(m)
							}
							rec.mu.Lock()
							rets[d] = err
							rec.mu.Unlock()
							close(done[d])
						}
						inOrOut := func(d string) {
							select {
							case <-fs.entered[d]:
							case <-done[d]:
							case <-time.After(5 * time.Second):
								t.Fatalf("%s neither entered the transport nor returned", d)
							}
						}
						go call(first)
						inOrOut(first)
						go call(second)
						inOrOut(second)
						if pattern == "recv-around-send" || pattern == "send-around-recv" {
							close(fs.release[second])
							<-done[second]
							close(fs.release[first])
							<-done[first]
						} else {
							close(fs.release[first])
							<-done[first]
							close(fs.release[second])
							<-done[second]
						}
						return nil
					})
					rec.mu.Lock()
					for _, d := range []string{"recv", "send"} {
						op := ops[d]
						asked, completed := []string{}, []J{}
						for _, a := range rec.asked {
							if a == d {
								asked = append(asked, a)
							}
						}
						for _, c := range rec.completed {
							if c["lim"] == d {
								completed = append(completed, c)
							}
						}
						code, same := "OK", true
						if ret := rets[d]; ret != nil {
							if ret == errInner {
								code = "inner"
							} else {
								code, same = status.Code(ret).String(), false
							}
						}
						w.write(J{"trace": k, "cfg": cfg, "op": op, "pattern": pattern, "overlaps": ops[map[string]string{"recv": "send", "send": "recv"}[d]],
							"obs": J{"asked": asked, "ran": fs.ran[d], "completed": completed, "code": code, "same": same}})
						k++
					}
					rec.mu.Unlock()
				}
			}
		}
	}
}

// seqStream is a ServerStream double whose operations return what the test scripted for the current operation.
type seqStream struct {
	ctx context.Context
	r   *grpcRec
	err error
}

func (f *seqStream) SetHeader(metadata.MD) error  { return nil }
func (f *seqStream) SendHeader(metadata.MD) error { return nil }
func (f *seqStream) SetTrailer(metadata.MD)       {}
func (f *seqStream) Context() context.Context     { return f.ctx }
func (f *seqStream) op() error {
	f.r.mu.Lock()
	f.r.ran++
	f.r.mu.Unlock()
	return f.err
}
func (f *seqStream) SendMsg(m interface{}) error { return f.op() }
func (f *seqStream) RecvMsg(m interface{}) error { return f.op() }

// TestGrpcStreamSequence issues long sequences of RecvMsg / SendMsg on ONE wrapped stream (the wrapper lives as long
// as the stream), with every kind of result in between - nil, io.EOF (the peer half-closed), a plain error, a status
// error - and grants and refusals mixed: each operation's observation is the contract's, whatever came before it on
// the same stream (C14: all sequences of RecvMsg/SendMsg calls on a stream).
func TestGrpcStreamSequence(t *testing.T) {
	w := newNdWriter(t, filepath.Join(outDir(t), "grpc_seq_trace.ndjson"))
	defer w.close()
	n := envInt("VERIF_N", 150)
	results := []error{nil, nil, io.EOF, errInner, status.Error(codes.Internal, "boom"), io.EOF}
	cls := []string{"success", "ignore", "dropped"}
	k := 0
	for seq := 0; seq < n; seq++ {
		r := newRng(seed(), uint64(40000+seq))
		cfg := grpcCfg{Custom: r.chance(1, 2), CustomLE: r.chance(1, 2), Named: r.intn(3)}
		st := newGrpcStack(cfg)
		rec := st.rec
		fs := &seqStream{ctx: context.Background(), r: rec}
		_ = st.ss(nil, fs, &golangGrpc.StreamServerInfo{FullMethod: "/svc/S"}, func(srv interface{}, ss golangGrpc.ServerStream) error {
			for i, nops := 0, r.between(4, 14); i < nops; i++ {
				inner := results[r.intn(len(results))]
				op := grpcOp{Kind: []string{"recv", "send"}[r.intn(2)], Grant: r.chance(3, 4), Err: inner != nil, Cls: r.pick(cls),
					LeCode: []string{"Unavailable", "Aborted"}[r.intn(2)], LeErr: []string{"plain", "status", "wrapped"}[r.intn(3)], Ctx: "live"}
				rec.mu.Lock()
				rec.asked, rec.completed, rec.ran, rec.grant = nil, nil, 0, op.Grant
				rec.mu.Unlock()
				st.op = op
				fs.err = inner
				var ret error
				if op.Kind == "recv" {
					ret = ss.RecvMsg(op.LeCode)
				} else {
					ret = ss.SendMsg(op.LeCode)
				}
				code, same := "OK", true
				if ret != nil {
					if ret == inner {
						code = "inner"
					} else {
						code, same = status.Code(ret).String(), false
					}
				}
				rec.mu.Lock()
				obs := J{"asked": append([]string{}, rec.asked...), "ran": rec.ran, "completed": append([]J{}, rec.completed...), "code": code, "same": same}
				rec.mu.Unlock()
				w.write(J{"trace": k, "cfg": cfg, "op": op, "obs": obs, "stream": seq, "pos": i, "inner": fmt.Sprint(inner)})
				k++
			}
			return nil
		})
	}
	writeJSON(t, filepath.Join(outDir(t), "grpc_seq.json"), J{"streams": n, "operations": k})
}
