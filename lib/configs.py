"""TLC configurations of the implementation-shaped models, generated at run time (one source of truth).
The same dictionaries produce the mc (exhaustive, invariants), neg (weakened, must fail) and gen
(transition graph emission) configurations."""

P2 = '{"p1", "p2"}'
P3 = '{"p1", "p2", "p3"}'
P4 = '{"p1", "p2", "p3", "p4"}'


def tla_val(v):
    if isinstance(v, bool):
        return "TRUE" if v else "FALSE"
    if isinstance(v, str) and not v.startswith("{"):
        return '"%s"' % v
    return str(v)


def cfg_text(consts, invariants=(), properties=(), init="InitE", emit=False):
    c = dict(consts)
    c["Emit"] = emit
    lines = ["CONSTANTS"] + ["  %s = %s" % (k, tla_val(v)) for k, v in c.items()]
    lines += ["INIT " + init, "NEXT Next"]
    if invariants:
        lines.append("INVARIANTS " + " ".join(invariants))
    for p in properties:
        lines.append("PROPERTY " + p)
    lines.append("CHECK_DEADLOCK FALSE")
    return "\n".join(lines) + "\n"


def blocking(kind="blocking", procs=P3, limit=1, poll=0, deadline=0, maxtime=0, fine=False, cancellable="{}",
             outcomes='{"success"}', guard=True, recheck=True):
    return {"P": procs, "Kind": kind, "Limit": limit, "Poll": poll, "Deadline": deadline, "MaxTime": maxtime,
            "Fine": fine, "Cancellable": cancellable, "Outcomes": outcomes, "TimeoutGuard": guard, "Recheck": recheck}


BLOCKING_INVS = ["Conservation", "NeverOver", "CancelBound", "RefusedHoldsNothing", "DeadlineBound", "NoLostWakeup"]
BLOCKING_PROPS = ["NoEarlyRefusal"]


def queue(procs=P3, limit=1, qmax=2, qtimeout=2, evict=True, ordering="fifo", maxtime=3, cancellable="{}",
          outcomes='{"success"}', locked=True, buffered=True):
    return {"P": procs, "Limit": limit, "QMax": qmax, "QTimeout": qtimeout, "EvictCtx": evict, "Ordering": ordering,
            "MaxTime": maxtime, "Cancellable": cancellable, "Outcomes": outcomes, "LockedArrival": locked,
            "BufferedHandoff": buffered}


QUEUE_INVS = ["Conservation", "NeverOver", "RefusedHoldsNothing", "BacklogBounded", "BacklogExact", "TimeoutBound",
              "CancelBound", "NoLostWakeup", "OrderOK"]

# name -> (module, constants)
WRAPPER = {
    # blocking limiter, repaired protocol
    "b3":   ("Blocking", blocking(cancellable='{"p3"}')),
    "b3f":  ("Blocking", blocking(fine=True)),
    "b3p":  ("Blocking", blocking(poll=2, maxtime=3, cancellable='{"p2"}', outcomes='{"ignore"}')),
    "b3l2": ("Blocking", blocking(limit=2, cancellable='{"p3"}', outcomes='{"success", "ignore"}')),
    "b2c":  ("Blocking", blocking(procs=P2, poll=1, maxtime=2, cancellable='{"p1", "p2"}', outcomes='{"dropped"}')),
    "b4":   ("Blocking", blocking(procs=P4, limit=2)),
    "b4c":  ("Blocking", blocking(procs=P4, limit=2, cancellable='{"p4"}')),
    # deadline limiter
    "d3":   ("Blocking", blocking(kind="deadline", deadline=2, maxtime=3, cancellable='{"p3"}', outcomes='{"dropped"}')),
    "d2":   ("Blocking", blocking(kind="deadline", procs=P2, deadline=1, maxtime=2, cancellable='{"p2"}')),
    "d3f":  ("Blocking", blocking(kind="deadline", deadline=2, maxtime=3, fine=True)),
    # queue limiter
    "q3":   ("QueueBlocking", queue(cancellable='{"p3"}')),
    "q3l":  ("QueueBlocking", queue(cancellable='{"p3"}', ordering="lifo")),
    "q3s":  ("QueueBlocking", queue(qmax=1, maxtime=2, outcomes='{"ignore"}')),
    "q3n":  ("QueueBlocking", queue(qtimeout=0, maxtime=0, evict=False, cancellable='{"p2"}', ordering="lifo", outcomes='{"dropped"}')),
    "q2":   ("QueueBlocking", queue(procs=P2, qmax=1, maxtime=2, cancellable='{"p2"}')),
    "q4b":  ("QueueBlocking", queue(procs=P4, qmax=2, qtimeout=0, maxtime=0, evict=False)),
    "q4":   ("QueueBlocking", queue(procs=P4, qmax=3, qtimeout=0, maxtime=0, evict=False)),
    "q4l":  ("QueueBlocking", queue(procs=P4, qmax=3, qtimeout=0, maxtime=0, evict=False, ordering="lifo")),
    "q4t":  ("QueueBlocking", queue(procs=P4, limit=2, qmax=2, qtimeout=2, maxtime=2, evict=True, cancellable='{"p4"}')),
}

# weakened designs (the code as delivered): name -> (module, constants, invariant that must be violated)
NEG = {
    "b3-asdelivered-lostwake": ("Blocking", blocking(cancellable='{"p3"}', recheck=False), "NoLostWakeup"),
    "b3f-asdelivered-lostwake": ("Blocking", blocking(fine=True, recheck=False), "NoLostWakeup"),
    "d3-asdelivered-deadline": ("Blocking", blocking(kind="deadline", deadline=2, maxtime=3, guard=False, recheck=False), "DeadlineBound"),
    "q3-asdelivered-lostwake": ("QueueBlocking", queue(cancellable='{"p3"}', locked=False, buffered=False), "NoLostWakeup"),
    "q3-asdelivered-backlog": ("QueueBlocking", queue(cancellable='{"p3"}', locked=False, buffered=False), "BacklogExact"),
    "q3-unbuffered-lostwake": ("QueueBlocking", queue(cancellable='{"p3"}', locked=True, buffered=False), "NoLostWakeup"),
}


def invs(module):
    return BLOCKING_INVS if module == "Blocking" else QUEUE_INVS


def props_of(module):
    return BLOCKING_PROPS if module == "Blocking" else []
