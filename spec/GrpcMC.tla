---------------------------------- MODULE GrpcMC ----------------------------------
(* Enumerates the full product of inputs of the Grpc contract (and sequences of stream        *)
(* operations, which are independent of each other) and prints one expected observation per   *)
(* case for the harness (model -> code).                                                      *)
EXTENDS Grpc, TLC, Json

CONSTANT Emit
VARIABLE n   \* number of operations performed on the (stateless) interceptor
Cfgs == [custom : BOOLEAN, customle : BOOLEAN, named : 0..2]   \* named: name / tag options absent, first, last - never part of the answer
\* ctx: the call's context stays live, is cancelled while the wrapped call runs, or has expired - never part of the answer
Ops == [kind : Kinds, grant : BOOLEAN, err : BOOLEAN, cls : {"success", "ignore", "dropped"}, lecode : {"Unavailable", "Aborted"},
        ctx : {"live", "cancelled", "expired"},
        \* leerr: what the custom limit-exceeded classifier returns as its error value - a plain error, a gRPC status of
        \* another code, or an error wrapping one: it supplies the message, never the code (never part of the answer)
        leerr : {"plain", "status", "wrapped"}]

\* chained interceptors: both layers built from the same options (with their own limiters)
ChainCfgs == [custom : BOOLEAN, customle : BOOLEAN, named : {0}]
ChainOps == [kind : Kinds, ogrant : BOOLEAN, grant : BOOLEAN, err : BOOLEAN, cls : {"success", "ignore", "dropped"},
             lecode : {"Unavailable", "Aborted"}, ctx : {"live"}, leerr : {"plain", "status"}]

\* the wrapped call takes two seconds (on the virtual clock of a bubble): how long it took is never part of the answer
SlowOps == [kind : Kinds, grant : {TRUE}, err : BOOLEAN, cls : {"success", "ignore", "dropped"}, lecode : {"Unavailable"},
            ctx : {"live"}, leerr : {"plain"}, dur : {"slow"}]

Init == /\ n = 0
        /\ \A c \in Cfgs, op \in SlowOps :
             Emit => PrintT(<<"SLOW", ToJson([cfg |-> c, op |-> op, exp |-> ApplyG(c, op)])>>)
        /\ \A c \in ChainCfgs, op \in ChainOps :
             Emit => PrintT(<<"CHAIN", ToJson([cfg |-> c, op |-> op, exp |-> ChainG(c, op)])>>)
Next == /\ n < 1
        /\ \E c \in Cfgs, op \in Ops :
             /\ n' = n + 1
             /\ Emit => PrintT(<<"CASE", ToJson([cfg |-> c, op |-> op, exp |-> ApplyG(c, op)])>>)

(* a refusing outer layer leaves everything inside untouched; a granting one completes its own token last *)
ChainGates == \A c \in ChainCfgs, op \in ChainOps :
   LET r == ChainG(c, op) IN
   /\ ~op.ogrant => (r.ran = 0 /\ Len(r.asked) = 1 /\ r.completed = <<>>)
   /\ op.ogrant => (Len(r.asked) = 2 /\ r.completed[Len(r.completed)].lim = r.asked[1]
                    /\ Len(r.completed) = (IF op.grant THEN 2 ELSE 1))

(* consequences *)
OnceOrNever == \A c \in Cfgs, op \in Ops :
   LET r == ApplyG(c, op) IN
   /\ Len(r.completed) = (IF op.grant THEN 1 ELSE 0)
   /\ r.ran = (IF op.grant THEN 1 ELSE 0)
   /\ Len(r.asked) = 1 /\ (op.grant => r.completed[1].lim = r.asked[1])
   /\ (op.kind = "send" => r.asked[1] = "send") /\ (op.kind = "recv" => r.asked[1] = "recv")
=================================================================================
