//go:build verif

package harness

import (
	"encoding/json"
	"fmt"
	"testing"
)

// sut is a real object driven through the transitions of a TLC state graph.
type sut interface {
	applyRaw(op json.RawMessage) (res any, err error)
	observe() any
}

type gEdge struct {
	From, To string // state keys
	ToObs    string // expected projection of the target state
	Op       json.RawMessage
	Res      string
	covered  bool
}

// splitState: a state is either its own projection, or {"o": projection, "k": full state}
func splitState(raw json.RawMessage) (key, obs string) {
	var ok struct{ O, K json.RawMessage }
	if json.Unmarshal(raw, &ok) == nil && ok.O != nil && ok.K != nil {
		return canon(raw), canon(ok.O)
	}
	c := canon(raw)
	return c, c
}

type gMismatch struct {
	Path      []json.RawMessage `json:"path"`
	Op        json.RawMessage   `json:"op"`
	ExpRes    string            `json:"exp_res"`
	GotRes    string            `json:"got_res"`
	ExpObs    string            `json:"exp_obs"`
	GotObs    string            `json:"got_obs"`
	Err       string            `json:"err,omitempty"`
	ShortPath bool              `json:"reproduced_on_shortest_path"`
}

type gReport struct {
	File        string      `json:"file"`
	States      int         `json:"states"`
	Edges       int         `json:"edges"`
	Covered     int         `json:"edges_covered"`
	Steps       int         `json:"steps_executed"`
	Restarts    int         `json:"restarts"`
	Unreachable int         `json:"edges_unreachable"`
	Mismatches  []gMismatch `json:"mismatches"`
	Samples     []any       `json:"samples"`
}

type graph struct {
	cfg     json.RawMessage
	initObs string
	init    string
	adj     map[string][]*gEdge
	edges   []*gEdge
}

func loadGraph(t testing.TB, path string) *graph {
	g := &graph{adj: map[string][]*gEdge{}}
	for _, raw := range readNd(t, path) {
		var line struct {
			T string          `json:"t"`
			V json.RawMessage `json:"v"`
		}
		if err := json.Unmarshal(raw, &line); err != nil {
			t.Fatalf("bad line %s: %v", raw, err)
		}
		switch line.T {
		case "C":
			g.cfg = line.V
		case "I":
			g.init, g.initObs = splitState(line.V)
		case "T":
			var tr struct {
				From, To, Op, Res json.RawMessage
			}
			if err := json.Unmarshal(line.V, &tr); err != nil {
				t.Fatal(err)
			}
			e := &gEdge{Op: tr.Op, Res: canon(tr.Res)}
			e.From, _ = splitState(tr.From)
			e.To, e.ToObs = splitState(tr.To)
			g.adj[e.From] = append(g.adj[e.From], e)
			g.edges = append(g.edges, e)
		}
	}
	if g.init == "" || len(g.edges) == 0 {
		t.Fatalf("graph %s: no init state or no transitions", path)
	}
	return g
}

// pathTo returns the shortest edge path from `from` to the nearest state satisfying want.
func (g *graph) pathTo(from string, want func(string) bool) []*gEdge {
	if want(from) {
		return []*gEdge{}
	}
	prev := map[string]*gEdge{from: nil}
	queue := []string{from}
	for len(queue) > 0 {
		cur := queue[0]
		queue = queue[1:]
		for _, e := range g.adj[cur] {
			if _, seen := prev[e.To]; seen {
				continue
			}
			prev[e.To] = e
			if want(e.To) {
				var path []*gEdge
				for at := e.To; at != from; {
					pe := prev[at]
					path = append([]*gEdge{pe}, path...)
					at = pe.From
				}
				return path
			}
			queue = append(queue, e.To)
		}
	}
	return nil
}

// replayGraph drives real objects through every transition of the graph: a greedy walk that
// always takes an uncovered edge if the current state has one, otherwise the shortest path to
// a state that has one, and restarts from a fresh object when none is reachable. After every
// step the real result and the projected real state are compared with TLC's.
func replayGraph(t testing.TB, path string, mk func(cfg json.RawMessage) (sut, error)) *gReport {
	g := loadGraph(t, path)
	rep := &gReport{File: path, States: len(g.adj), Edges: len(g.edges)}
	hasUncovered := func(s string) bool {
		for _, e := range g.adj[s] {
			if !e.covered {
				return true
			}
		}
		return false
	}
	var cur string
	var obj sut
	var hist []json.RawMessage
	fresh := func() {
		var err error
		obj, err = mk(g.cfg)
		if err != nil {
			t.Fatalf("constructing the object under test: %v", err)
		}
		cur = g.init
		hist = nil
		if got := canonV(obj.observe()); got != g.initObs {
			rep.Mismatches = append(rep.Mismatches, gMismatch{Op: json.RawMessage(`"construct"`), ExpObs: g.initObs, GotObs: got, ShortPath: true})
		}
	}
	// step executes one edge on the current object; returns false on mismatch
	step := func(e *gEdge) bool {
		rep.Steps++
		res, err := obj.applyRaw(e.Op)
		hist = append(hist, e.Op)
		gotRes, gotObs, errs := "", "", ""
		if err != nil {
			errs = err.Error()
		} else {
			gotRes = canonV(res)
			gotObs = canonV(obj.observe())
		}
		if !e.covered {
			e.covered = true
			rep.Covered++
		}
		if err != nil || gotRes != e.Res || gotObs != e.ToObs {
			m := gMismatch{Path: append([]json.RawMessage{}, hist[:len(hist)-1]...), Op: e.Op, ExpRes: e.Res, GotRes: gotRes, ExpObs: e.ToObs, GotObs: gotObs, Err: errs}
			// try the shortest reproduction on a fresh object
			sp := g.pathTo(g.init, func(s string) bool { return s == e.From })
			if sp != nil {
				o2, err2 := mk(g.cfg)
				if err2 == nil {
					okPrefix := true
					var ops []json.RawMessage
					for _, pe := range sp {
						ops = append(ops, pe.Op)
						if _, err := o2.applyRaw(pe.Op); err != nil {
							okPrefix = false
							break
						}
					}
					if okPrefix {
						r2, err3 := o2.applyRaw(e.Op)
						if err3 != nil || canonV(r2) != e.Res || canonV(o2.observe()) != e.ToObs {
							m.ShortPath = true
							m.Path = ops
							if err3 == nil {
								m.GotRes, m.GotObs = canonV(r2), canonV(o2.observe())
							}
						}
					}
				}
			}
			if len(rep.Mismatches) < 25 {
				rep.Mismatches = append(rep.Mismatches, m)
			}
			return false
		}
		cur = e.To
		return true
	}
	fresh()
	if len(rep.Mismatches) > 0 {
		return rep
	}
	justRestarted := true
	for rep.Covered < len(g.edges) && len(rep.Mismatches) < 25 {
		var next *gEdge
		for _, e := range g.adj[cur] {
			if !e.covered {
				next = e
				break
			}
		}
		if next != nil {
			if len(rep.Samples) < 3 {
				rep.Samples = append(rep.Samples, J{"from": json.RawMessage(next.From), "op": next.Op, "res": json.RawMessage(next.Res), "to": json.RawMessage(next.To)})
			}
			if !step(next) {
				rep.Restarts++
				fresh()
				justRestarted = true
				continue
			}
			justRestarted = false
			continue
		}
		p := g.pathTo(cur, hasUncovered)
		if p == nil {
			if justRestarted {
				break // the rest is unreachable from the initial state
			}
			rep.Restarts++
			fresh()
			justRestarted = true
			continue
		}
		bad := false
		for _, e := range p {
			if !step(e) {
				bad = true
				break
			}
		}
		if bad {
			rep.Restarts++
			fresh()
			justRestarted = true
			continue
		}
		justRestarted = false
	}
	rep.Unreachable = len(g.edges) - rep.Covered
	return rep
}

func (r *gReport) String() string {
	return fmt.Sprintf("states=%d edges=%d covered=%d steps=%d restarts=%d mismatches=%d", r.States, r.Edges, r.Covered, r.Steps, r.Restarts, len(r.Mismatches))
}
