----------------------------- MODULE DefaultLimiterConc -----------------------------
(* Implementation-shaped model of the concurrency structure behind C01: DefaultLimiter.Acquire *)
(* (limiter mutex around strategy.TryAcquire), the simple strategy's load / compare / add as    *)
(* separate steps, the precise strategy's own mutex, completions that give the token back       *)
(* outside the limiter mutex and then fold / update under it, and sample-driven limit changes.  *)
(* The contract (Gate) is stated as invariants over it:                                         *)
(*   NeverOver       tokens out never exceed the largest limit in force since the oldest        *)
(*                   outstanding grant                                                          *)
(*   GrantHadRoom    at the increment the count is still below the limit in force               *)
(*   RefusedAtLimit  a refusal was decided on a count at or above the limit                     *)
(* LimiterLock = FALSE / StrategyLock = FALSE are the weakenings whose counterexample is the    *)
(* attack schedule realised by the harness (TestGateAttack): caller 1 parked between check and  *)
(* increment (hooks simple.afterCheck / precise.afterCheck), caller 2 admitted meanwhile.       *)
EXTENDS Integers, FiniteSets, TLC

CONSTANTS
  P,            \* callers
  Limits,       \* values the scripted algorithm may report at an update (floored at 1)
  Limit0,
  Direct,       \* TRUE: the strategy is used directly (no limiter mutex at all; precise strategy)
  LimiterLock,  \* FALSE: weakening - Acquire does not take the limiter mutex
  StrategyLock, \* TRUE: the strategy serialises check and increment itself (precise)
  Rounds

NoProc == "-"
Max(a, b) == IF a > b THEN a ELSE b

VARIABLES
  pc,       \* idle | locked | checked | held | released | done
  loaded,   \* the in-flight count p read
  rounds,
  mu,       \* limiter mutex holder
  smu,      \* strategy mutex holder (precise)
  inflight, limit,
  maxForce, \* largest limit in force since the oldest outstanding grant (history)
  refusedAt \* history: [count, limit] of the last refusal decision, or <<>>
vars == <<pc, loaded, rounds, mu, smu, inflight, limit, maxForce, refusedAt>>

Init ==
  /\ pc = [p \in P |-> "idle"] /\ loaded = [p \in P |-> 0] /\ rounds = [p \in P |-> 0]
  /\ mu = NoProc /\ smu = NoProc /\ inflight = 0 /\ limit = Limit0 /\ maxForce = Limit0
  /\ refusedAt = <<>>

UsesMu == ~Direct /\ LimiterLock

(* Acquire: take the limiter mutex (if any), then the strategy's (if any) *)
AcqLock(p) ==
  /\ pc[p] = "idle" /\ rounds[p] < Rounds
  /\ UsesMu => mu = NoProc
  /\ StrategyLock => smu = NoProc
  /\ mu' = IF UsesMu THEN p ELSE mu
  /\ smu' = IF StrategyLock THEN p ELSE smu
  /\ pc' = [pc EXCEPT ![p] = "locked"]
  /\ UNCHANGED <<loaded, rounds, inflight, limit, maxForce, refusedAt>>

Unlock(p) ==
  /\ mu' = IF mu = p THEN NoProc ELSE mu
  /\ smu' = IF smu = p THEN NoProc ELSE smu

(* load the count, compare with the limit: refuse, or park at the hook before the increment *)
Check(p) ==
  /\ pc[p] = "locked"
  /\ loaded' = [loaded EXCEPT ![p] = inflight]
  /\ IF inflight >= limit
     THEN /\ pc' = [pc EXCEPT ![p] = "idle"] /\ rounds' = [rounds EXCEPT ![p] = @ + 1]
          /\ refusedAt' = <<inflight, limit>> /\ Unlock(p)
     ELSE /\ pc' = [pc EXCEPT ![p] = "checked"] /\ UNCHANGED <<rounds, refusedAt, mu, smu>>
  /\ UNCHANGED <<inflight, limit, maxForce>>

Add(p) ==
  /\ pc[p] = "checked"
  /\ inflight' = inflight + 1
  /\ pc' = [pc EXCEPT ![p] = "held"]
  /\ Unlock(p)
  /\ UNCHANGED <<loaded, rounds, limit, maxForce, refusedAt>>

(* completion: gauge and token are given back outside the limiter mutex ... *)
Release(p) ==
  /\ pc[p] = "held"
  /\ StrategyLock => smu = NoProc
  /\ inflight' = inflight - 1
  /\ pc' = [pc EXCEPT ![p] = "released"]
  /\ maxForce' = IF inflight - 1 = 0 THEN limit ELSE maxForce
  /\ UNCHANGED <<loaded, rounds, mu, smu, limit, refusedAt>>

(* ... then the sample is folded and the window may close: the algorithm reports a new estimate *)
(* and the strategy's limit follows it, all under the limiter mutex                             *)
FoldUpdate(p) ==
  /\ pc[p] = "released"
  /\ UsesMu => mu = NoProc
  /\ StrategyLock => smu = NoProc   \* the precise strategy's SetLimit takes its mutex
  /\ \E v \in Limits \cup {limit} :
       /\ limit' = Max(1, v)
       /\ maxForce' = IF inflight = 0 THEN Max(1, v) ELSE Max(maxForce, Max(1, v))
  /\ pc' = [pc EXCEPT ![p] = "idle"] /\ rounds' = [rounds EXCEPT ![p] = @ + 1]
  /\ UNCHANGED <<loaded, mu, smu, inflight, refusedAt>>

Next == \E p \in P : AcqLock(p) \/ Check(p) \/ Add(p) \/ Release(p) \/ FoldUpdate(p)
Spec == Init /\ [][Next]_vars

NeverOver == inflight <= maxForce
GrantHadRoom == [][\A p \in P : (pc[p] = "checked" /\ pc'[p] = "held") => inflight < limit]_vars
RefusedAtLimit == refusedAt # <<>> => refusedAt[1] >= refusedAt[2]
NonNegative == inflight >= 0
=================================================================================
