--------------------------------- MODULE GrpcTrace ---------------------------------
(* Trace validation for spec/Grpc.tla: one line per intercepted operation executed on the     *)
(* real interceptors (random option combinations, random sequences on one stream).            *)
EXTENDS Grpc, TLC, Json, IOUtils
Log == ndJsonDeserialize(IOEnv.VERIF_TRACE)
VARIABLE l
Init == l = 1
Step == /\ l <= Len(Log) /\ l' = l + 1
        /\ LET e == Log[l]
               x == ApplyG(e.cfg, e.op) IN
           x # e.obs => PrintT(<<"REJECT", ToJson([trace |-> e.trace, line |-> l, why |-> "observation differs from the contract",
                                                   expected |-> x, logged |-> e.obs, op |-> e.op, cfg |-> e.cfg])>>)
Done == l > Len(Log) /\ UNCHANGED l
Next == Step \/ Done
Consumed == (l > Len(Log)) => PrintT(<<"CONSUMED", l - 1>>)
=================================================================================
