//go:build verif

package harness

import (
	"context"
	"fmt"
	"path/filepath"
	"sync"
	"sync/atomic"
	"testing"
	"testing/synctest"
	"time"

	"github.com/platinummonkey/go-concurrency-limits/core"
	"github.com/platinummonkey/go-concurrency-limits/limiter"
	"github.com/platinummonkey/go-concurrency-limits/patterns/pool"
	"github.com/platinummonkey/go-concurrency-limits/strategy"
)

// TestPoolLongRun keeps fixed pools busy for long enough that their sample windows close (more completions than the
// window size, each held longer than the minimum RTT threshold, on the virtual clock of a bubble) while other tokens are
// held: whatever the limiter and its strategy do at a window close, the pool stays a counting gate. The history of
// begin / end events of every Acquire and release goes to spec/GateTrace.tla (C19: never more than the limit held).
func TestPoolLongRun(t *testing.T) {
	w := newNdWriter(t, filepath.Join(outDir(t), "pool_gate_trace.ndjson"))
	defer w.close()
	k := 0
	orderings := []pool.Ordering{pool.OrderingFIFO, pool.OrderingLIFO, pool.OrderingRandom}
	for rep := 0; rep < envInt("VERIF_N", 2); rep++ {
		for oi, ord := range orderings {
			for _, lim := range []int{1, 2, 3} {
				var mu sync.Mutex
				var events []J
				var seq, ids int64
				begin := func(kind string) func(ok bool) {
					id := atomic.AddInt64(&ids, 1)
					mu.Lock()
					events = append(events, J{"t": "b", "id": id, "kind": kind, "v": 0, "ok": true, "n": -1, "seq": atomic.AddInt64(&seq, 1)})
					mu.Unlock()
					return func(ok bool) {
						mu.Lock()
						events = append(events, J{"t": "e", "id": id, "kind": "", "v": 0, "ok": ok, "n": -1, "seq": atomic.AddInt64(&seq, 1)})
						mu.Unlock()
					}
				}
				synctest.Test(t, func(t *testing.T) {
					windowSize := 10 + 5*rep
					p, err := pool.NewFixedPool(fmt.Sprintf("long-%d", k), ord, lim, windowSize, 20*time.Millisecond, 40*time.Millisecond, 5*time.Millisecond, 8, -1, nil, nil)
					if err != nil {
						t.Fatal(err)
					}
					var wg sync.WaitGroup
					workers := lim + 2
					for g := 0; g < workers; g++ {
						wg.Add(1)
						go func(g int) {
							defer wg.Done()
							r := newRng(seed()+uint64(k), uint64(g))
							for i := 0; i < 3*windowSize; i++ {
								end := begin("acq")
								l, ok := p.Acquire(context.Background())
								end(ok && l != nil)
								if !ok || l == nil {
									time.Sleep(time.Millisecond)
									continue
								}
								time.Sleep(time.Duration(6+r.intn(9)) * time.Millisecond) // longer than the RTT threshold
								end = begin("rel")
								switch r.intn(5) {
								case 0:
									l.OnDropped()
								case 1:
									l.OnIgnore()
								default:
									l.OnSuccess()
								}
								end(true)
							}
						}(g)
					}
					wg.Wait()
				})
				w.write(J{"t": "reset", "trace": k, "kind": "fixedpool-" + []string{"fifo", "lifo", "random"}[oi], "limit": lim, "id": 0, "v": 0, "ok": true, "n": -1})
				for _, e := range events {
					e["trace"] = k
					w.write(e)
				}
				k++
			}
		}
	}
	// generic pools over a DefaultLimiter with the SIMPLE strategy (the library's own example): with the random ordering every
	// release wakes all waiters, who then attempt at once - in real time, on all processors
	for rep := 0; rep < envInt("VERIF_N", 2); rep++ {
		for oi, ord := range orderings {
			for _, lim := range []int{1, 2} {
				var mu sync.Mutex
				var events []J
				var seq, ids int64
				begin := func(kind string) func(ok bool) {
					id := atomic.AddInt64(&ids, 1)
					mu.Lock()
					events = append(events, J{"t": "b", "id": id, "kind": kind, "v": 0, "ok": true, "n": -1, "seq": atomic.AddInt64(&seq, 1)})
					mu.Unlock()
					return func(ok bool) {
						mu.Lock()
						events = append(events, J{"t": "e", "id": id, "kind": "", "v": 0, "ok": ok, "n": -1, "seq": atomic.AddInt64(&seq, 1)})
						mu.Unlock()
					}
				}
				dl, _, err := newDelegate(lim, false)
				if err != nil {
					t.Fatal(err)
				}
				p, err := pool.NewPool(dl, ord, 16, time.Second, nil, nil)
				if err != nil {
					t.Fatal(err)
				}
				var wg sync.WaitGroup
				start := make(chan struct{})
				for g := 0; g < lim+3; g++ {
					wg.Add(1)
					go func(g int) {
						defer wg.Done()
						<-start
						for i := 0; i < 40; i++ {
							end := begin("acq")
							l, ok := p.Acquire(context.Background())
							end(ok && l != nil)
							if !ok || l == nil {
								continue
							}
							end = begin("rel")
							l.OnIgnore()
							end(true)
						}
					}(g)
				}
				// meanwhile somebody logs the pool and its limiter (a status line, a %v in a log call)
				stopFmt := make(chan struct{})
				go func() {
					for {
						select {
						case <-stopFmt:
							return
						default:
							_ = fmt.Sprintf("%v | %v", p, dl)
							time.Sleep(100 * time.Microsecond)
						}
					}
				}()
				close(start)
				done := make(chan struct{})
				go func() { wg.Wait(); close(done) }()
				stuck := false
				select {
				case <-done:
				case <-time.After(40 * time.Second):
					stuck = true // the goroutines are left where they are; the history so far and the fact go to the acceptor
				}
				close(stopFmt)
				w.write(J{"t": "reset", "trace": k, "kind": "genericpool-simple-" + []string{"fifo", "lifo", "random"}[oi], "limit": lim, "id": 0, "v": 0, "ok": true, "n": -1})
				mu.Lock()
				evs := append([]J{}, events...)
				mu.Unlock()
				openCalls := map[any]bool{}
				for _, e := range evs {
					e["trace"] = k
					w.write(e)
					if e["t"] == "b" {
						openCalls[e["id"]] = true
					} else {
						delete(openCalls, e["id"])
					}
				}
				if stuck {
					w.write(J{"t": "stuck", "trace": k, "id": 0, "kind": "", "v": len(openCalls), "ok": true, "n": -1})
				}
				k++
			}
		}
	}
	// somebody logs the pool and its limiter (%v) while it is busy, for a few hundred thousand acquire / release cycles. The
	// busy phase is not recorded; what goes to the acceptor is whether it came to an end (a watchdog reports callers stuck
	// with the capacity free) and a sequential probe of the pool afterwards.
	for oi, ord := range orderings {
		lim := 4
		dl, _, err := newDelegate(lim, false)
		if err != nil {
			t.Fatal(err)
		}
		p, err := pool.NewPool(dl, ord, 64, 10*time.Second, nil, nil)
		if err != nil {
			t.Fatal(err)
		}
		stopFmt := make(chan struct{})
		go func() {
			for {
				select {
				case <-stopFmt:
					return
				default:
					_ = fmt.Sprintf("%v | %v", p, dl)
					time.Sleep(200 * time.Microsecond)
				}
			}
		}()
		var pending int64
		var wg sync.WaitGroup
		for g := 0; g < 12; g++ {
			wg.Add(1)
			go func() {
				defer wg.Done()
				for i := 0; i < 20000; i++ {
					atomic.AddInt64(&pending, 1)
					l, ok := p.Acquire(context.Background())
					atomic.AddInt64(&pending, -1)
					if ok && l != nil {
						l.OnIgnore()
					}
				}
			}()
		}
		done := make(chan struct{})
		go func() { wg.Wait(); close(done) }()
		stuck := false
		select {
		case <-done:
		case <-time.After(60 * time.Second):
			stuck = true
		}
		close(stopFmt)
		w.write(J{"t": "reset", "trace": k, "kind": "genericpool-simple-" + []string{"fifo", "lifo", "random"}[oi] + "/logged-while-busy", "limit": lim, "id": 0, "v": 0, "ok": true, "n": -1})
		if stuck {
			w.write(J{"t": "stuck", "trace": k, "id": 0, "kind": "", "v": int(atomic.LoadInt64(&pending)), "ok": true, "n": -1})
		} else {
			var sq int64
			var held []core.Listener
			for i := 1; i <= lim; i++ {
				sq++
				w.write(J{"t": "b", "trace": k, "id": i, "kind": "acq", "v": 0, "ok": true, "n": -1, "seq": sq})
				l, ok := p.Acquire(context.Background())
				sq++
				w.write(J{"t": "e", "trace": k, "id": i, "kind": "", "v": 0, "ok": ok && l != nil, "n": -1, "seq": sq})
				if ok && l != nil {
					held = append(held, l)
				}
			}
			for _, l := range held {
				l.OnIgnore()
			}
		}
		k++
	}
	// the attack schedule of the weakened DefaultLimiterConc model, through the pools: caller 1 parked between the strategy's
	// check and its increment, caller 2 started meanwhile (bounded wait: on this tree it waits for the limiter mutex), then
	// both let go, caller 1 completes and whoever still waits is served. The pool must stay a counting gate.
	type atk struct {
		kind, point string
		build       func(lim int) (interface {
			Acquire(context.Context) (core.Listener, bool)
		}, error)
	}
	var atks []atk
	for oi, ord := range orderings {
		ord, on := ord, []string{"fifo", "lifo", "random"}[oi]
		atks = append(atks, atk{"genericpool-simple-" + on + "/attack", "simple.afterCheck", func(lim int) (interface {
			Acquire(context.Context) (core.Listener, bool)
		}, error) {
			dl, _, err := newDelegate(lim, false)
			if err != nil {
				return nil, err
			}
			return pool.NewPool(dl, ord, 16, 2*time.Second, nil, nil)
		}})
		atks = append(atks, atk{"fixedpool-" + on + "/attack", "precise.afterCheck", func(lim int) (interface {
			Acquire(context.Context) (core.Listener, bool)
		}, error) {
			return pool.NewFixedPool(fmt.Sprintf("attack-%s-%d", on, k), ord, lim, -1, -1, -1, -1, 16, 2*time.Second, nil, nil)
		}})
	}
	for _, a := range atks {
		for _, lim := range []int{1, 2} {
			p, err := a.build(lim)
			if err != nil {
				t.Fatal(err)
			}
			var mu sync.Mutex
			var events []J
			var seq, ids int64
			begin := func(kind string) func(ok bool) {
				id := atomic.AddInt64(&ids, 1)
				mu.Lock()
				events = append(events, J{"t": "b", "id": id, "kind": kind, "v": 0, "ok": true, "n": -1, "seq": atomic.AddInt64(&seq, 1)})
				mu.Unlock()
				return func(ok bool) {
					mu.Lock()
					events = append(events, J{"t": "e", "id": id, "kind": "", "v": 0, "ok": ok, "n": -1, "seq": atomic.AddInt64(&seq, 1)})
					mu.Unlock()
				}
			}
			var armed int32 = 0
			parked, resume := make(chan struct{}), make(chan struct{})
			strategy.VerifPoint = func(point string) {
				if point == a.point && atomic.CompareAndSwapInt32(&armed, 1, 2) {
					close(parked)
					<-resume
				}
			}
			limiter.VerifPoint = nil
			var held []core.Listener
			for i := 0; i < lim-1; i++ { // holders fill all but one token
				end := begin("acq")
				l, ok := p.Acquire(context.Background())
				end(ok && l != nil)
				if ok && l != nil {
					held = append(held, l)
				}
			}
			got := make(chan core.Listener, 2)
			call := func() {
				end := begin("acq")
				l, ok := p.Acquire(context.Background())
				end(ok && l != nil)
				if !ok {
					l = nil
				}
				got <- l
			}
			atomic.StoreInt32(&armed, 1)
			go call()
			select {
			case <-parked:
			case <-time.After(time.Second):
				t.Fatalf("%s: the first caller did not reach %s", a.kind, a.point)
			}
			go call()
			time.Sleep(30 * time.Millisecond) // the second caller gets in now if anything lets it
			close(resume)
			// complete whatever is granted, one after the other, until both callers have returned
			for n := 0; n < 2; n++ {
				select {
				case l := <-got:
					if l != nil {
						time.Sleep(2 * time.Millisecond)
						end := begin("rel")
						l.OnIgnore()
						end(true)
					}
				case <-time.After(5 * time.Second):
					t.Fatalf("%s: a caller never returned", a.kind)
				}
			}
			for _, l := range held {
				end := begin("rel")
				l.OnIgnore()
				end(true)
			}
			strategy.VerifPoint = nil
			w.write(J{"t": "reset", "trace": k, "kind": a.kind, "limit": lim, "id": 0, "v": 0, "ok": true, "n": -1})
			for _, e := range events {
				e["trace"] = k
				w.write(e)
			}
			k++
		}
	}
	writeJSON(t, filepath.Join(outDir(t), "pool_longrun.json"), J{"histories": k})
}
