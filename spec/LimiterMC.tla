-------------------------------- MODULE LimiterMC --------------------------------
(* Exhaustive exploration of the Limiter contract (DefaultLimiter over a scripted limit and   *)
(* the simple / precise strategy) with the real minimum window size; every transition is      *)
(* printed for the harness (model -> code replay).                                            *)
EXTENDS Limiter, TLC, Json

CONSTANTS Strat, WSize, MinW, MaxW, Threshold, Est0, ScriptName, MaxAge, MaxCount, MaxSamp, Emit

(* estimate trajectories of the scripted limit: repeated values, 0 and a larger value (the  *)
(* negative one is used by the trace drivers; .cfg files cannot hold tuples)                *)
Script == CASE ScriptName = "a" -> <<1, 3, 0, 2>>
            [] ScriptName = "b" -> <<2, 2, 1>>
            [] OTHER -> <<3>>

MCcfg == [strat |-> Strat, wsize |-> WSize, minw |-> MinW, maxw |-> MaxW, threshold |-> Threshold,
          est0 |-> Est0, script |-> Script, rem0 |-> -1, part |-> [kind |-> "none"]]

VARIABLE s

Ops == [op : {"acq"}, key : {""}]
       \cup [op : {"adv"}, d : {1, 2}]
       \cup [op : {"comp"}, i : 1..3, outcome : {"success", "ignore", "dropped"}]

Init == /\ s = InitL(MCcfg)
        /\ Emit => /\ PrintT(<<"C", ToJson(MCcfg)>>)
                   /\ PrintT(<<"I", ToJson([o |-> ObsL(MCcfg, s), k |-> s])>>)

Bounded(st, op) ==
  /\ st.win.count <= MaxCount
  /\ st.nsamp <= MaxSamp
  /\ \A j \in 1..Len(st.ls) : st.ls[j].age <= MaxAge

Next == \E op \in Ops :
          /\ EnabledL(MCcfg, s, op)
          /\ LET r == ApplyL(MCcfg, s, op) IN
               /\ Bounded(r.st, op)
               /\ s' = r.st
               /\ Emit => PrintT(<<"T", ToJson([from |-> [o |-> ObsL(MCcfg, s), k |-> s], op |-> op, res |-> r.res,
                                                to |-> [o |-> ObsL(MCcfg, r.st), k |-> r.st]])>>)

InvC == InvConserve(MCcfg, s)
InvE == InvEnforce(MCcfg, s)
InvW == InvWindow(MCcfg, s)
=================================================================================
