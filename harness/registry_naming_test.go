//go:build verif

package harness

import (
	"net"
	"path/filepath"
	"sort"
	"strconv"
	"strings"
	"sync"
	"sync/atomic"
	"testing"
	"time"

	"github.com/DataDog/datadog-go/v5/statsd"
	gometrics "github.com/rcrowley/go-metrics"

	"github.com/platinummonkey/go-concurrency-limits/core"
	ddreg "github.com/platinummonkey/go-concurrency-limits/metric_registry/datadog"
	gmreg "github.com/platinummonkey/go-concurrency-limits/metric_registry/gometrics"
)

// TestRegistryNaming records, for every constructor of the bundled registries and a vocabulary of requested
// prefixes, the backend metric names under which a sample listener and a polled gauge arrive (C20: "under the
// prefixed name").  The address-based Datadog constructor is exercised against a fake agent on a loopback UDP
// socket, in real time; the naming rule itself is spec/RegistryTrace.tla's (records "Naming").
func TestRegistryNaming(t *testing.T) {
	w := newNdWriter(t, filepath.Join(outDir(t), "naming_trace.ndjson"))
	defer w.close()
	gometrics.NewTimer().Stop()
	ids := []string{"demo.rtt", "demo.limit"}
	type result struct {
		ctor, prefix string
		seen         map[string][]string
		skip         string
	}
	var mu sync.Mutex
	var results []result
	var wg sync.WaitGroup
	collect := func(names map[string]bool) map[string][]string {
		seen := map[string][]string{}
		for _, id := range ids {
			seen[id] = []string{}
			for n := range names {
				if strings.HasSuffix(n, id) {
					seen[id] = append(seen[id], n)
				}
			}
			sort.Strings(seen[id])
		}
		return seen
	}
	drive := func(reg core.MetricRegistry, start, stop func()) {
		reg.RegisterDistribution(ids[0]).AddSample(3)
		reg.RegisterGauge(ids[1], func() (float64, bool) { return 7, true })
		start()
		_ = stop
	}
	for _, prefix := range []string{"", "svc", "svc.", "limiter."} {
		prefix := prefix
		// go-metrics
		func() {
			gm := gometrics.NewRegistry()
			rr, err := gmreg.NewGoMetricsMetricRegistry(gm, "", prefix, 5*time.Millisecond)
			if err != nil {
				t.Fatal(err)
			}
			drive(rr, rr.Start, rr.Stop)
			names := map[string]bool{}
			for dl := time.Now().Add(2 * time.Second); time.Now().Before(dl); time.Sleep(5 * time.Millisecond) {
				names = map[string]bool{}
				gm.Each(func(n string, _ interface{}) { names[n] = true })
				if s := collect(names); len(s[ids[0]]) > 0 && len(s[ids[1]]) > 0 {
					break
				}
			}
			rr.Stop()
			mu.Lock()
			results = append(results, result{"gometrics", prefix, collect(names), ""})
			mu.Unlock()
		}()
		// Datadog over a caller-supplied client writing to a buffer
		func() {
			dd := &nopCloser{}
			cl, err := statsd.NewWithWriter(dd, statsd.WithoutTelemetry(), statsd.WithMaxMessagesPerPayload(1), statsd.WithoutClientSideAggregation())
			if err != nil {
				t.Fatal(err)
			}
			defer cl.Close()
			rr, err := ddreg.NewMetricRegistryWithClient(cl, prefix, 5*time.Millisecond)
			if err != nil {
				t.Fatal(err)
			}
			drive(rr, rr.Start, rr.Stop)
			names := map[string]bool{}
			for dl := time.Now().Add(2 * time.Second); time.Now().Before(dl); time.Sleep(5 * time.Millisecond) {
				cl.Flush()
				names = statsdNames(dd.text())
				if s := collect(names); len(s[ids[0]]) > 0 && len(s[ids[1]]) > 0 {
					break
				}
			}
			rr.Stop()
			mu.Lock()
			results = append(results, result{"datadog-client", prefix, collect(names), ""})
			mu.Unlock()
		}()
		// Datadog by address: a fake agent on loopback UDP (the client aggregates gauges for up to two seconds)
		wg.Add(1)
		go func() {
			defer wg.Done()
			pc, err := net.ListenPacket("udp", "127.0.0.1:0")
			if err != nil {
				mu.Lock()
				results = append(results, result{"datadog-addr", prefix, nil, "no loopback UDP socket: " + err.Error()})
				mu.Unlock()
				return
			}
			defer pc.Close()
			rr, err := ddreg.NewMetricRegistry(pc.LocalAddr().String(), prefix, 20*time.Millisecond)
			if err != nil {
				mu.Lock()
				results = append(results, result{"datadog-addr", prefix, nil, "constructor failed: " + err.Error()})
				mu.Unlock()
				return
			}
			drive(rr, rr.Start, rr.Stop)
			names := map[string]bool{}
			buf := make([]byte, 65536)
			for dl := time.Now().Add(6 * time.Second); time.Now().Before(dl); {
				pc.SetReadDeadline(time.Now().Add(100 * time.Millisecond))
				n, _, err := pc.ReadFrom(buf)
				if err == nil {
					for k := range statsdNames(string(buf[:n])) {
						names[k] = true
					}
				}
				if s := collect(names); len(s[ids[0]]) > 0 && len(s[ids[1]]) > 0 {
					break
				}
			}
			rr.Stop()
			mu.Lock()
			results = append(results, result{"datadog-addr", prefix, collect(names), ""})
			mu.Unlock()
		}()
	}
	// restart: Start, a poll, Stop, the supplier's value changes, Start again: the backend metric must follow
	type restart struct {
		ctor          string
		first, second float64
	}
	var restarts []restart
	var val atomic.Value
	val.Store(7.0)
	supplier := func() (float64, bool) { return val.Load().(float64), true }
	waitFor := func(read func() float64, want float64) float64 {
		got := read()
		for dl := time.Now().Add(1500 * time.Millisecond); time.Now().Before(dl) && got != want; time.Sleep(3 * time.Millisecond) {
			got = read()
		}
		return got
	}
	func() {
		gm := gometrics.NewRegistry()
		rr, err := gmreg.NewGoMetricsMetricRegistry(gm, "", "svc", 5*time.Millisecond)
		if err != nil {
			t.Fatal(err)
		}
		rr.RegisterGauge("demo.limit", supplier)
		read := func() float64 {
			if g, ok := gm.Get("svc.demo.limit").(gometrics.GaugeFloat64); ok {
				return g.Value()
			}
			return -1
		}
		rr.Start()
		first := waitFor(read, 7)
		rr.Stop()
		val.Store(9.0)
		rr.Start()
		second := waitFor(read, 9)
		rr.Stop()
		restarts = append(restarts, restart{"gometrics", first, second})
	}()
	func() {
		val.Store(7.0)
		dd := &nopCloser{}
		cl, err := statsd.NewWithWriter(dd, statsd.WithoutTelemetry(), statsd.WithMaxMessagesPerPayload(1), statsd.WithoutClientSideAggregation())
		if err != nil {
			t.Fatal(err)
		}
		defer cl.Close()
		rr, err := ddreg.NewMetricRegistryWithClient(cl, "svc", 5*time.Millisecond)
		if err != nil {
			t.Fatal(err)
		}
		rr.RegisterGauge("demo.limit", supplier)
		read := func() float64 { // the value of the latest gauge datagram
			cl.Flush()
			last := -1.0
			for _, line := range strings.Split(dd.text(), "\n") {
				if strings.HasPrefix(line, "svc.demo.limit:") && strings.Contains(line, "|g") {
					v := strings.TrimPrefix(line, "svc.demo.limit:")
					if i := strings.Index(v, "|"); i > 0 {
						if f, err := strconv.ParseFloat(v[:i], 64); err == nil {
							last = f
						}
					}
				}
			}
			return last
		}
		rr.Start()
		first := waitFor(read, 7)
		rr.Stop()
		val.Store(9.0)
		rr.Start()
		second := waitFor(read, 9)
		rr.Stop()
		restarts = append(restarts, restart{"datadog-client", first, second})
	}()
	// one backend, two owners: a second registry over the same go-metrics backend and prefix (a limiter rebuilt at run
	// time), and a metric the application registered itself beforehand: samples reach the backend metric of that name
	type shared struct {
		what          string
		first, second int64
	}
	var shareds []shared
	func() {
		gm := gometrics.NewRegistry()
		r1, err := gmreg.NewGoMetricsMetricRegistry(gm, "", "svc", time.Hour)
		if err != nil {
			t.Fatal(err)
		}
		r1.RegisterDistribution("demo.rtt").AddSample(3)
		r1.RegisterCount("demo.dropped").AddSample(1)
		count := func(name string) int64 {
			switch m := gm.Get(name).(type) {
			case gometrics.Histogram:
				return m.Count()
			case gometrics.Counter:
				return m.Count()
			}
			return -1
		}
		h1, c1 := count("svc.demo.rtt"), count("svc.demo.dropped")
		r2, err := gmreg.NewGoMetricsMetricRegistry(gm, "", "svc", time.Hour)
		if err != nil {
			t.Fatal(err)
		}
		r2.RegisterDistribution("demo.rtt").AddSample(4)
		r2.RegisterCount("demo.dropped").AddSample(1)
		shareds = append(shareds, shared{"second registry / distribution", h1, count("svc.demo.rtt")}, shared{"second registry / count", c1, count("svc.demo.dropped")})
		pre := gometrics.GetOrRegisterHistogram("svc.pre.rtt", gm, gometrics.NewUniformSample(100))
		pre.Update(1)
		r1.RegisterDistribution("pre.rtt").AddSample(5)
		shareds = append(shareds, shared{"pre-registered / distribution", 1, count("svc.pre.rtt")})
	}()
	wg.Wait()
	sort.Slice(results, func(i, j int) bool {
		if results[i].ctor != results[j].ctor {
			return results[i].ctor < results[j].ctor
		}
		return results[i].prefix < results[j].prefix
	})
	for k, r := range results {
		if r.skip != "" {
			w.write(J{"ev": "NamingSkipped", "trace": k, "ctor": r.ctor, "prefix": r.prefix, "why": r.skip})
			continue
		}
		w.write(J{"ev": "Naming", "trace": k, "ctor": r.ctor, "prefix": r.prefix, "rtt": r.seen[ids[0]], "limit": r.seen[ids[1]]})
	}
	for k, r := range shareds {
		w.write(J{"ev": "Shared", "trace": len(results) + len(restarts) + k, "what": r.what, "first": r.first, "second": r.second})
	}
	for k, r := range restarts {
		w.write(J{"ev": "Restart", "trace": len(results) + k, "ctor": r.ctor, "first": r.first, "second": r.second, "want": J{"first": 7, "second": 9}})
	}
}

// statsdNames returns the metric names of the datagrams in text ("name:value|type|...", one per line).
func statsdNames(text string) map[string]bool {
	names := map[string]bool{}
	for _, line := range strings.Split(text, "\n") {
		if i := strings.Index(line, ":"); i > 0 {
			names[line[:i]] = true
		}
	}
	return names
}
