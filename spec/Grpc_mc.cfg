CONSTANT Emit = TRUE
INIT Init
NEXT Next
INVARIANT OnceOrNever
INVARIANT ChainGates
CHECK_DEADLOCK FALSE
