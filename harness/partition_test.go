//go:build verif

package harness

import (
	"encoding/json"
	"fmt"
	"path/filepath"
	"testing"
)

func (s *partSUT) applyRaw(raw json.RawMessage) (any, error) {
	var op partOp
	if err := json.Unmarshal(raw, &op); err != nil {
		return nil, err
	}
	return s.apply(op)
}

func (s *partSUT) observe() any { return s.obs() }

func mkPart(raw json.RawMessage) (sut, error) {
	var cfg partCfg
	if err := json.Unmarshal(raw, &cfg); err != nil {
		return nil, err
	}
	return newPartSUT(cfg)
}

// TestPartitionReplay drives the real partitioned strategies through every transition of the
// state graphs TLC generated from spec/PartitionMC.tla (model -> code).
func TestPartitionReplay(t *testing.T) {
	for _, kind := range []string{"lookup", "predicate"} {
		rep := replayGraph(t, inFile(t, "partition_"+kind+".ndjson"), mkPart)
		t.Logf("%s: %s", kind, rep)
		writeJSON(t, filepath.Join(outDir(t), "replay_"+kind+".json"), rep)
	}
}

// TestPartitionRandom records random histories of real strategies as ndjson (code -> model).
func TestPartitionRandom(t *testing.T) {
	n := envInt("VERIF_N", 200)
	w := newNdWriter(t, filepath.Join(outDir(t), "partition_trace.ndjson"))
	defer w.close()
	keys := []string{"a", "b", "c", "z"}
	names := []string{"a", "b", "c"}
	for tr := 0; tr < n; tr++ {
		r := newRng(seed(), uint64(tr))
		cfg := partCfg{Kind: []string{"lookup", "predicate"}[tr%2], Den: 16, Limit: r.between(1, 64),
			Objs: map[string]partObjCfg{}, Variant: map[string]string{"unknown": "contract", "add": "contract"}}
		if r.chance(1, 3) {
			cfg.Limit = r.between(1, 6)
		}
		nobj := r.between(1, 4)
		left := 16
		for i := 0; i < nobj; i++ {
			id := fmt.Sprintf("p%d", i)
			num := r.intn(left + 1)
			if r.chance(1, 4) {
				num = 0
			}
			o := partObjCfg{Name: r.pick(names), Num: num, Built: r.between(1, 70)}
			for _, k := range keys {
				if r.chance(1, 3) {
					o.Match = append(o.Match, k)
				}
			}
			if len(o.Match) == 0 {
				o.Match = []string{r.pick(keys)}
			}
			cfg.Objs[id] = o
			// initial registration: distinct names for lookup, fractions summing to <= 1
			taken := false
			for _, j := range cfg.Init {
				if cfg.Kind == "lookup" && cfg.Objs[j].Name == o.Name {
					taken = true
				}
			}
			if !taken && num <= left && (len(cfg.Init) == 0 || r.chance(2, 3)) {
				cfg.Init = append(cfg.Init, id)
				left -= num
			}
		}
		s, err := newPartSUT(cfg)
		if err != nil {
			t.Fatalf("trace %d: %v", tr, err)
		}
		w.write(J{"ev": "Reset", "trace": tr, "cfg": cfg, "post": s.obs()})
		nops := r.between(50, 200)
		ids := sortedKeys(cfg.Objs)
		for i := 0; i < nops; i++ {
			var op partOp
			x := r.intn(100)
			switch {
			case x < 45:
				op = partOp{Op: "try", Key: r.pick(keys)}
			case x < 75:
				var bins []string
				for b, ts := range s.tokens {
					if len(ts) > 0 {
						bins = append(bins, b)
					}
				}
				if len(bins) == 0 {
					op = partOp{Op: "try", Key: r.pick(keys)}
				} else {
					sortStrings(bins)
					op = partOp{Op: "rel", Bin: r.pick(bins)}
				}
			case x < 85:
				v := r.between(-1, 64)
				if r.chance(1, 2) {
					v = r.between(0, 8)
				}
				op = partOp{Op: "set", V: v}
			case x < 93:
				op = partOp{Op: "add", Obj: r.pick(ids)}
			default:
				op = partOp{Op: "rem", Key: r.pick(keys)}
			}
			res, err := s.apply(op)
			if err != nil {
				w.write(J{"ev": "Op", "trace": tr, "op": op, "res": J{"ok": false, "err": err.Error()}, "post": J{}})
				break
			}
			w.write(J{"ev": "Op", "trace": tr, "op": op, "res": res, "post": s.obs()})
		}
	}
}
