CONSTANTS Kind = "predicate" VarUnknown = "contract" VarAdd = "contract" InitLimit = 3 Limits = {0, 1, 2, 3, 4} MaxOut = 7 Emit = FALSE
INIT Init
NEXT Next
INVARIANTS InvBinsSum InvShares InvNonNeg InvGuaranteed
CHECK_DEADLOCK FALSE
