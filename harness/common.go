//go:build verif

// Package harness binds the TLA+ specifications under /verif/spec to the code in /repo:
// it replays TLC-generated behaviours into the real objects and records ndjson traces of real
// executions for validation by TLC.
package harness

import (
	"bufio"
	"encoding/json"
	"fmt"
	"os"
	"path/filepath"
	"sort"
	"strconv"
	"strings"
	"sync"
	"testing"

	"github.com/platinummonkey/go-concurrency-limits/core"
)

// ---------------------------------------------------------------- environment

func envInt(name string, def int) int {
	if v := os.Getenv(name); v != "" {
		if n, err := strconv.Atoi(v); err == nil {
			return n
		}
	}
	return def
}

func seed() uint64 { return uint64(envInt("VERIF_SEED", 0)) }

func thorough() bool { return os.Getenv("VERIF_TIER") == "thorough" }

func outDir(t testing.TB) string {
	d := os.Getenv("VERIF_OUT")
	if d == "" {
		d = t.TempDir()
	}
	return d
}

func inFile(t testing.TB, name string) string {
	d := os.Getenv("VERIF_IN")
	if d == "" {
		t.Skip("VERIF_IN not set")
	}
	return filepath.Join(d, name)
}

// ------------------------------------------------------------------- PRNG (PCG-ish splitmix)

type rng struct{ s uint64 }

func newRng(seed uint64, stream uint64) *rng {
	r := &rng{s: seed*0x9E3779B97F4A7C15 + stream*0xBF58476D1CE4E5B9 + 0x94D049BB133111EB}
	r.next()
	return r
}

func (r *rng) next() uint64 {
	r.s += 0x9E3779B97F4A7C15
	z := r.s
	z = (z ^ (z >> 30)) * 0xBF58476D1CE4E5B9
	z = (z ^ (z >> 27)) * 0x94D049BB133111EB
	return z ^ (z >> 31)
}

func (r *rng) intn(n int) int {
	if n <= 0 {
		return 0
	}
	return int(r.next() % uint64(n))
}

func (r *rng) between(lo, hi int) int { return lo + r.intn(hi-lo+1) }

func (r *rng) chance(num, den int) bool { return r.intn(den) < num }

func (r *rng) pick(xs []string) string { return xs[r.intn(len(xs))] }

// ------------------------------------------------------------------- ndjson

var debugFlush = os.Getenv("VERIF_DEBUG") != ""

type J = map[string]any

type ndWriter struct {
	mu sync.Mutex
	f  *os.File
	w  *bufio.Writer
	n  int
}

func newNdWriter(t testing.TB, path string) *ndWriter {
	f, err := os.Create(path)
	if err != nil {
		t.Fatal(err)
	}
	return &ndWriter{f: f, w: bufio.NewWriterSize(f, 1<<20)}
}

func (w *ndWriter) write(v any) {
	b, err := json.Marshal(v)
	if err != nil {
		panic(err)
	}
	w.mu.Lock()
	w.w.Write(b)
	w.w.WriteByte('\n')
	w.n++
	if debugFlush {
		w.w.Flush()
	}
	w.mu.Unlock()
}

func (w *ndWriter) close() {
	w.w.Flush()
	w.f.Close()
}

func readNd(t testing.TB, path string) []json.RawMessage {
	f, err := os.Open(path)
	if err != nil {
		t.Fatal(err)
	}
	defer f.Close()
	var out []json.RawMessage
	sc := bufio.NewScanner(f)
	sc.Buffer(make([]byte, 1<<20), 1<<26)
	for sc.Scan() {
		line := strings.TrimSpace(sc.Text())
		if line == "" {
			continue
		}
		out = append(out, json.RawMessage(append([]byte(nil), line...)))
	}
	return out
}

// canon re-marshals a JSON value with sorted keys (Go sorts map keys) and integral floats as ints.
func canon(raw []byte) string {
	var v any
	dec := json.NewDecoder(strings.NewReader(string(raw)))
	dec.UseNumber()
	if err := dec.Decode(&v); err != nil {
		panic(fmt.Sprintf("canon: %v in %s", err, raw))
	}
	b, _ := json.Marshal(normEmpty(v))
	return string(b)
}

// normEmpty maps empty objects to empty arrays: TLC prints an empty function as an empty tuple.
func normEmpty(v any) any {
	switch x := v.(type) {
	case map[string]any:
		if len(x) == 0 {
			return []any{}
		}
		for k, e := range x {
			x[k] = normEmpty(e)
		}
	case []any:
		for i, e := range x {
			x[i] = normEmpty(e)
		}
	}
	return v
}

func canonV(v any) string {
	b, err := json.Marshal(v)
	if err != nil {
		panic(err)
	}
	return canon(b)
}

func writeJSON(t testing.TB, path string, v any) {
	b, err := json.MarshalIndent(v, "", " ")
	if err != nil {
		t.Fatal(err)
	}
	if err := os.WriteFile(path, b, 0o644); err != nil {
		t.Fatal(err)
	}
}

// ------------------------------------------------------------------- recording metric registry

// RecSample is one AddSample call seen by the recording registry.
type RecSample struct {
	ID    string   `json:"id"`
	Kind  string   `json:"kind"`
	Tags  []string `json:"tags"`
	Value float64  `json:"value"`
}

type recListener struct {
	r    *RecordingRegistry
	id   string
	kind string
	tags []string
}

func (l *recListener) AddSample(v float64, tags ...string) {
	l.r.mu.Lock()
	l.r.Samples = append(l.r.Samples, RecSample{ID: l.id, Kind: l.kind, Tags: append(append([]string{}, l.tags...), tags...), Value: v})
	if l.r.OnSample != nil {
		l.r.OnSample(l.r.Samples[len(l.r.Samples)-1])
	}
	park := l.r.Park
	l.r.mu.Unlock()
	if park != nil {
		park() // outside the registry's own mutex: a parked emitter must not stop other emitters here
	}
}

// RecordingRegistry is a core.MetricRegistry double that records registrations and samples.
type RecordingRegistry struct {
	mu        sync.Mutex
	Gauges    map[string]core.MetricSupplier
	GaugeReg  []string
	Listeners []string
	Samples   []RecSample
	Starts    int
	Stops     int
	OnSample  func(RecSample)
	Park      func()
}

func newRecordingRegistry() *RecordingRegistry {
	return &RecordingRegistry{Gauges: map[string]core.MetricSupplier{}}
}

func regKey(id string, tags []string) string {
	ts := append([]string{}, tags...)
	sort.Strings(ts)
	return id + "|" + strings.Join(ts, ",")
}

func (r *RecordingRegistry) listener(kind, id string, tags []string) core.MetricSampleListener {
	r.mu.Lock()
	defer r.mu.Unlock()
	r.Listeners = append(r.Listeners, kind+":"+regKey(id, tags))
	return &recListener{r: r, id: id, kind: kind, tags: append([]string{}, tags...)}
}

func (r *RecordingRegistry) RegisterDistribution(id string, tags ...string) core.MetricSampleListener {
	return r.listener("distribution", id, tags)
}
func (r *RecordingRegistry) RegisterTiming(id string, tags ...string) core.MetricSampleListener {
	return r.listener("timing", id, tags)
}
func (r *RecordingRegistry) RegisterCount(id string, tags ...string) core.MetricSampleListener {
	return r.listener("count", id, tags)
}
func (r *RecordingRegistry) RegisterGauge(id string, s core.MetricSupplier, tags ...string) {
	r.mu.Lock()
	defer r.mu.Unlock()
	k := regKey(id, tags)
	r.GaugeReg = append(r.GaugeReg, k)
	r.Gauges[k] = s
}
func (r *RecordingRegistry) Start() { r.mu.Lock(); r.Starts++; r.mu.Unlock() }
func (r *RecordingRegistry) Stop()  { r.mu.Lock(); r.Stops++; r.mu.Unlock() }

// Gauge polls a registered gauge; ok=false if it is not registered.
func (r *RecordingRegistry) Gauge(id string, tags ...string) (int, bool) {
	r.mu.Lock()
	s, ok := r.Gauges[regKey(id, tags)]
	r.mu.Unlock()
	if !ok {
		return 0, false
	}
	v, ok2 := s()
	return int(v), ok2
}

// GaugeByID polls the first registered gauge with the given metric ID whatever its tags.
func (r *RecordingRegistry) GaugeByID(id string) (int, bool) {
	r.mu.Lock()
	var s core.MetricSupplier
	for _, k := range r.GaugeReg {
		if strings.HasPrefix(k, id+"|") {
			s = r.Gauges[k]
			break
		}
	}
	r.mu.Unlock()
	if s == nil {
		return 0, false
	}
	v, ok := s()
	return int(v), ok
}

func (r *RecordingRegistry) takeSamples() []RecSample {
	r.mu.Lock()
	defer r.mu.Unlock()
	s := r.Samples
	r.Samples = nil
	return s
}
