"""Per-property check pipelines (see DESIGN.md section 5)."""
import concurrent.futures
import json
import os
import threading

import configs
import vlib
from vlib import Machinery


# ------------------------------------------------------------------ shared helpers
def emit_graph(run, r, path):
    """Write the C / I / T lines printed by a *_gen TLC run as one ndjson graph file."""
    n = 0
    with open(path, "w") as f:
        for tag in ("C", "I", "T"):
            for v in r.json_prints(tag):
                f.write(json.dumps({"t": tag, "v": v}, separators=(",", ":")) + "\n")
                if tag == "T":
                    n += 1
    if n == 0:
        raise Machinery("TLC %s emitted no transitions" % r.label)
    return n


def graph_report(run, prop_what, rep, label):
    """Fold a harness graph-replay report into the run; mismatches are contract violations by the real code."""
    run.extra.setdefault("replay", []).append({k: rep[k] for k in ("states", "edges", "edges_covered", "steps_executed", "restarts", "edges_unreachable")} | {"graph": label})
    run.traces += 1
    run.events += rep["steps_executed"]
    if rep["edges_unreachable"] > 0 and not rep.get("mismatches"):
        raise Machinery("%s: %d transitions of the TLC graph could not be reached on the real code" % (label, rep["edges_unreachable"]))
    for s in rep.get("samples") or []:
        run.sample({"graph": label, "transition": s})
    return rep["mismatches"] or []


def validate_trace(run, module, cfg, trace_path, nlines, dfs=False):
    """TLC trace validation of a deterministic contract: returns the list of REJECT records."""
    r = run.tlc(module, cfg, workers=1, env={"VERIF_TRACE": trace_path}, dfs=dfs, label="val:" + module)
    if r.error or not r.ok:
        raise Machinery("trace validation %s failed to run: %s %s\n%s" % (module, r.error, r.violation, r.raw[-3000:]))
    consumed = [int(x) for x in r.prints.get("CONSUMED", [])]
    if not consumed or max(consumed) != nlines:
        raise Machinery("trace validation %s consumed %s of %d lines\n%s" % (module, consumed, nlines, r.raw[-3000:]))
    run.extra.setdefault("val", []).append({"module": module, "lines": nlines, "states": r.distinct, "wall_s": r.wall})
    return r.json_prints("REJECT")


def split_trace(path, nshards, outdir):
    """Split an ndjson log at Reset boundaries into about nshards files; returns [(path, nlines)]."""
    shards, cur, curf, n = [], None, None, 0
    total = sum(1 for _ in open(path))
    per = max(1, total // nshards)
    idx = 0
    with open(path) as f:
        for line in f:
            if curf is None or (n >= per and line.startswith('{"cfg"') or (n >= per and '"ev":"Reset"' in line[:400])):
                if curf:
                    curf.close()
                    shards.append((cur, n))
                idx += 1
                cur = os.path.join(outdir, "shard%d.ndjson" % idx)
                curf = open(cur, "w")
                n = 0
            curf.write(line)
            n += 1
    if curf:
        curf.close()
        shards.append((cur, n))
    return shards


def validate_sharded(run, module, cfg, trace_path, max_shards=12, per_shard=40000):
    """Trace validation of a large log: shards validated by concurrent TLC processes."""
    total = sum(1 for _ in open(trace_path))
    nsh = max(1, min(max_shards, total // per_shard + 1))
    d = os.path.join(run.scratch, "shards%d" % len(run.tlc_runs))
    os.makedirs(d, exist_ok=True)
    shards = split_trace(trace_path, nsh, d) if nsh > 1 else [(trace_path, total)]
    rejects = []

    def one(sh):
        path, n = sh
        r = run.tlc(module, cfg, workers=1, env={"VERIF_TRACE": path}, label="val:%s[%d lines]" % (module, n),
                    jvm="-Xmx3g -XX:ParallelGCThreads=2")
        if r.error or not r.ok:
            raise Machinery("trace validation %s failed to run: %s %s\n%s" % (module, r.error, r.violation, r.raw[-3000:]))
        consumed = [int(x) for x in r.prints.get("CONSUMED", [])]
        if not consumed or max(consumed) != n:
            raise Machinery("trace validation %s consumed %s of %d lines\n%s" % (module, consumed, n, r.raw[-3000:]))
        return r.json_prints("REJECT")

    with concurrent.futures.ThreadPoolExecutor(max_workers=min(len(shards), 12)) as ex:
        for rj in ex.map(one, shards):
            rejects += rj
    run.extra.setdefault("val", []).append({"module": module, "lines": total, "shards": len(shards)})
    return rejects, total


# ---------------------------------------------------------------- blocking wrappers (C02 C10-C13 C19)
def handle_rejects(run, prop, rejects, tp, classes, stack, all_rejects, cap=25):
    seen = set()
    wanted = []
    for rj in rejects:
        key = (rj["trace"], rj["class"], rj.get("p"))
        if key in seen:
            continue
        seen.add(key)
        rj["_stack"] = stack
        all_rejects.append(rj)
        if rj["class"] in classes and len(wanted) < cap:
            wanted.append(rj)
    if not wanted:
        return
    need = {rj["trace"] for rj in wanted}
    by_trace = {}
    with open(tp) as f:
        for line in f:
            x = json.loads(line)
            if x["trace"] in need:
                by_trace.setdefault(x["trace"], []).append(x)
    for rj in wanted:
        tr = [x for x in by_trace.get(rj["trace"], []) if x["ev"] == "Reset" or x.get("i", 0) <= rj["i"]]
        cfg = tr[0]["cfg"] if tr else {}
        sig = {"class": rj["class"], "kind": cfg.get("kind"), "known": rj.get("known", "")}
        run.report("%s limiter%s: recorded execution rejected by the contract (%s: %s, process %s) after step %s" % (
            cfg.get("kind"), (" built by " + cfg["ctor"]) if cfg.get("ctor") else "", rj["class"], rj["why"], rj.get("p"), json.dumps(rj["step"])),
            {"config": cfg, "schedule": [x.get("step") for x in tr[1:]], "trace": tr, "reject": rj,
             "rerun": "VERIF_SEED=%d bin/check %s --tier %s" % (run.seed, prop, run.tier)}, sig)
    n_more = sum(1 for rj in all_rejects if rj["class"] in classes and rj.get("_stack") == stack) - len(wanted)
    if n_more > 0:
        run.extra["further_rejections_not_reported_individually"] = run.extra.get("further_rejections_not_reported_individually", 0) + n_more


def wrapper_random(run, prop, classes, n, all_rejects):
    """Free-running seeded scenarios over every constructor (configuration, defaults, deprecated constructors, pools)."""
    out, _ = run.go("^(TestWrapperRandom|TestSubMilli)$", env={"VERIF_N": n}, timeout=900)
    tp = os.path.join(out, "wrapper_trace.ndjson")
    # queue limiters on a clock of 100 microsecond units (time-outs and releases off the whole milliseconds); their trace numbers
    # follow the random scenarios'
    with open(tp, "a") as f:
        for x in vlib.read_ndjson(os.path.join(out, "submilli_trace.ndjson")):
            x["trace"] += 1000000
            f.write(json.dumps(x, separators=(",", ":")) + "\n")
    rejects, total = validate_sharded(run, "WrapperTrace", "Wrapper_trace.cfg", tp)
    run.events += total
    stats = {"scenarios": 0, "handoffs": 0, "refusals": 0, "grants_after_sleep": 0, "allserved_scenarios": 0, "ctors": {}}
    with open(tp) as f:
        for line in f:
            x = json.loads(line)
            if x["ev"] == "Reset":
                stats["scenarios"] += 1
                stats["ctors"][x["cfg"]["ctor"]] = stats["ctors"].get(x["cfg"]["ctor"], 0) + 1
                stats["allserved_scenarios"] += 1 if x["cfg"]["allserved"] else 0
                if stats["scenarios"] == 1:
                    run.sample({"free_running_scenario_config": x["cfg"]})
            elif x["ev"] == "Step":
                for e in x["evs"]:
                    if e["k"] == "want" and e["by"] != e["for"]:
                        stats["handoffs"] += 1
                    if e["k"] == "ret" and not e["ok"]:
                        stats["refusals"] += 1
                    if e["k"] == "ret" and e["ok"] and x["step"].get("p") != e["p"]:
                        stats["grants_after_sleep"] += 1
    run.traces += stats["scenarios"]
    run.extra["free_running"] = stats
    if stats["grants_after_sleep"] == 0 or stats["refusals"] == 0:
        raise Machinery("free-running driver is vacuous: %s" % stats)
    handle_rejects(run, prop, rejects, tp, classes, "free-running", all_rejects)


def handoff_race(run, prop, classes, all_rejects):
    """Real-time schedules the bubble cannot run: a waiter gives up while unblock() holds the limiter mutex mid hand-off."""
    out, _ = run.go("^(TestHandoffGiveUpRace|TestUnblockRace|TestArrivalRace|TestReleaseOrder|TestReleaseArrival|TestCancelArrival|TestSlowArrival)$", env={"VERIF_N": 6 if run.tier == "thorough" else 2}, timeout=600)
    for fname, label in (("handoff_trace.ndjson", "handoff-race"), ("unblock_trace.ndjson", "unblock-race"), ("arrival_trace.ndjson", "arrival-race"), ("release_trace.ndjson", "release-order"),
                         ("relarrival_trace.ndjson", "release-arrival"), ("cancelarrival_trace.ndjson", "cancel-arrival"),
                         ("slowarrival_trace.ndjson", "slow-arrival")):
        tp = os.path.join(out, fname)
        rejects, total = validate_sharded(run, "WrapperTrace", "Wrapper_trace.cfg", tp)
        run.events += total
        n = sum(1 for line in open(tp) if '"ev":"Reset"' in line)
        run.traces += n
        run.extra[label.replace("-", "_") + "_scenarios"] = n
        if label == "slow-arrival":
            # real-time clock: the instant a caller was first seen asleep is later than the instant it went to sleep, so a
            # refusal exactly at its bound can look early by the settling time; only a wait beyond the bound is judged
            rejects = [rj for rj in rejects if rj["class"] != "early"]
        if label == "arrival-race":
            # callers started at once in real time: whether a refusal met a full backlog depends on an arrival order the log
            # cannot fix (the refused caller's events can precede the push that filled the backlog) - these scenarios are
            # judged for the backlog bound, conservation and the gate, not for the justification of refusals
            rejects = [rj for rj in rejects if rj["class"] != "early"]
        handle_rejects(run, prop, rejects, tp, classes, label, all_rejects)


TEMPORAL = {"Blocking": {"WakeUp", "CancelWakes", "DeadlineWakes"}, "QueueBlocking": {"WakeUp", "CancelWakes", "TimeoutWakes"}}


def live_cfg(consts, spec, props):
    c = dict(consts)
    c["Emit"] = False
    lines = ["CONSTANTS"] + ["  %s = %s" % (k, configs.tla_val(v)) for k, v in c.items()]
    lines += ["SPECIFICATION " + spec] + ["PROPERTY " + p for p in props] + ["CHECK_DEADLOCK FALSE"]
    return "\n".join(lines) + "\n"


def wrapper_liveness(run, names, negs, temporal, serve):
    """Temporal properties under weak fairness of the library's own steps (LiveSpec), and - for the configurations
    without cancellation and time-outs - service of every caller when moreover callers arrive and holders complete
    (ServeSpec).  The as-delivered designs must violate WakeUp."""
    for name in names:
        module, consts = configs.WRAPPER[name]
        props = sorted(set(temporal) & TEMPORAL[module])
        if props:
            r = run.tlc(module, name + "_live.cfg", cfg_text=live_cfg(consts, "LiveSpec", props), label="live:%s" % name, coverage=False)
            if r.error or not r.ok:
                raise Machinery("TLC %s: %s %s on the implementation-shaped model\n%s" % (r.label, r.error, r.violation, r.raw[-4000:]))
            run.states += r.distinct
            run.transitions += r.generated
            run.extra.setdefault("liveness", []).append({"run": r.label, "spec": "LiveSpec", "properties": props, "distinct": r.distinct})
        if serve and name in LIVE:
            r = run.tlc(module, name + "_serve.cfg", cfg_text=live_cfg(consts, "ServeSpec", ["AllServed"]), label="serve:%s" % name, coverage=False)
            if r.error or not r.ok:
                raise Machinery("TLC %s: %s %s on the implementation-shaped model\n%s" % (r.label, r.error, r.violation, r.raw[-4000:]))
            run.states += r.distinct
            run.transitions += r.generated
            run.extra.setdefault("liveness", []).append({"run": r.label, "spec": "ServeSpec", "properties": ["AllServed"], "distinct": r.distinct})
    for name in negs:
        module, consts, inv = configs.NEG[name]
        tp = {"NoLostWakeup": "WakeUp", "DeadlineBound": "DeadlineWakes"}.get(inv)
        if tp and tp in temporal:
            run.neg(module, "negl_" + name + ".cfg", cfg_text=live_cfg(consts, "LiveSpec", [tp]), label="neg-live:%s/%s" % (name, tp))


def wrapper_pipeline(run, prop, names, negs, classes, random_n=0, extra_invs=None, handoff=False, temporal=(), serve=False):
    """mc (+ graph emission) of the implementation-shaped models, negs, replay of every transition on the
    real limiters, validation of the recorded executions against the contract WrapperTrace.
    Rejections whose class is in `classes` are violations of `prop`."""
    indir = os.path.join(run.scratch, "in")
    os.makedirs(indir, exist_ok=True)
    kinds = set()
    th = run.tier == "thorough"
    all_rejects = []
    if handoff:
        # the real-time scenarios come first: their waits are bounded, so a change that makes a caller hang is judged here
        # before it can stall a replay on the virtual clock
        handoff_race(run, prop, classes, all_rejects)
    for name in names:
        module, consts = configs.WRAPPER[name]
        text = configs.cfg_text(consts, configs.invs(module) + (extra_invs or {}).get(name, []), configs.props_of(module), emit=True)
        r = run.tlc(module, name + ".cfg", cfg_text=text, label="mc+gen:%s" % name, coverage=False)
        if r.error:
            raise Machinery("TLC %s: %s\n%s" % (r.label, r.error, r.raw[-3000:]))
        if not r.ok:
            raise Machinery("TLC %s reports %s on the implementation-shaped model (no real-code trace yet):\n%s" % (r.label, r.violation, r.raw[-5000:]))
        run.states += r.distinct
        run.transitions += r.generated
        prefix = "blocking" if module == "Blocking" else "queue"
        kinds.add(prefix)
        n = emit_graph(run, r, os.path.join(indir, "%s_%s.ndjson" % (prefix, name)))
        if n != r.generated - 1:
            raise Machinery("TLC %s printed %d transitions but generated %d states" % (r.label, n, r.generated))
    for name in negs:
        module, consts, inv = configs.NEG[name]
        text = configs.cfg_text(consts, [inv], [], emit=False)
        r = run.neg(module, "neg_" + name + ".cfg", cfg_text=text, label="neg:%s" % name)
    if temporal or serve:
        wrapper_liveness(run, names, negs, temporal, serve)
    for prefix in sorted(kinds):
        test = "^TestBlockingReplay$" if prefix == "blocking" else "^TestQueueReplay$"
        # once the real-time scenarios have established a violation, a replay that stalls on the virtual clock (a change that
        # makes a caller wait for a mutex is not "durably blocked" there) is not waited for long
        out, _ = run.go(test, env={"VERIF_IN": indir}, timeout=240 if run.violations else 1500)
        reps = json.load(open(os.path.join(out, prefix + "_replay.json")))
        steps = conf = 0
        for rep in reps:
            run.extra.setdefault("replay", []).append({k: rep[k] for k in rep if k != "first_divergences"})
            steps += rep["steps_executed"]
            conf += rep["steps_conforming"]
            run.traces += rep["scenarios"]
            if rep.get("first_divergences"):
                run.extra.setdefault("divergences", []).extend(rep["first_divergences"][:3])
        run.extra["step_conformance"] = run.extra.get("step_conformance", [])
        run.extra["step_conformance"].append({"stack": prefix, "steps": steps, "conforming": conf})
        tp = os.path.join(out, prefix + "_trace.ndjson")
        rejects, total = validate_sharded(run, "WrapperTrace", "Wrapper_trace.cfg", tp)
        run.events += total
        # samples + violations
        if total:
            with open(tp) as f:
                head = [json.loads(next(f)) for _ in range(min(4, total))]
            run.sample({"recorded_trace_excerpt": head})
        handle_rejects(run, prop, rejects, tp, classes, prefix, all_rejects)
        if steps and conf * 2 < steps and not run.violations:
            raise Machinery("dead driver: only %d of %d replayed steps followed the model for %s" % (conf, steps, prefix))
    if random_n:
        wrapper_random(run, prop, classes, random_n, all_rejects)
    other = {}
    for rj in all_rejects:
        if rj["class"] not in classes:
            other[rj["class"]] = other.get(rj["class"], 0) + 1
    if other:
        run.extra["rejections_of_other_classes"] = other
    run.extra["rejection_classes_checked"] = sorted(classes)
    run.exhaustive = True
    run.assumptions += [
        "exhaustive within the stated constants only (2-4 processes, limit 1-2, backlog <= 3, a few ticks)",
        "schedule points exist only at the gates (delegate Acquire entry/exit, delegate completion exit, queue.afterPush, block.childStart); each gate-to-gate segment runs alone",
        "virtual clock of testing/synctest: timers are exact and fire as soon as they are due",
    ]


LIVE = {n: ["TerminalAllServed"] for n in ("b3f", "b4", "q4", "q4l", "q3n")}


def c10(run):
    th = run.tier == "thorough"
    names = ["b3", "b3f", "d2", "q2", "q3s", "q3n"] + (["b3p", "b3l2", "d3", "d3f", "q3", "q3l", "b4", "q4", "q4t"] if th else [])
    wrapper_pipeline(run, "C10", names, ["b3-asdelivered-lostwake", "b3f-asdelivered-lostwake", "q3-asdelivered-lostwake", "q3-unbuffered-lostwake"],
                     {"lostwake"}, random_n=2000 if th else 300, extra_invs=LIVE, handoff=True, temporal=("WakeUp",), serve=True)


def c11(run):
    th = run.tier == "thorough"
    # q4 / q4l: four callers, so that an arrival can take the freed token before unblock (the refused hand-off path)
    names = ["q3l", "q4"] + (["q3", "q4l", "q3n", "q4t"] if th else [])
    wrapper_pipeline(run, "C11", names, [], {"order"}, random_n=4000 if th else 800, handoff=True)


def c12(run):
    th = run.tier == "thorough"
    names = ["q2", "q3s", "q3"] + (["q3l", "q4t", "q4", "q3n"] if th else [])
    wrapper_pipeline(run, "C12", names, ["q3-asdelivered-backlog"], {"backlog"}, random_n=3000 if th else 500, handoff=True)


def c13(run):
    th = run.tier == "thorough"
    names = ["b2c", "d2", "q2", "q3s", "d3"] + (["b3p", "d3f", "q3", "q4t", "b3"] if th else [])
    wrapper_pipeline(run, "C13", names, ["d3-asdelivered-deadline"], {"bound", "early"}, random_n=3000 if th else 500, handoff=True,
                     temporal=("CancelWakes", "DeadlineWakes", "TimeoutWakes"))


def c19(run):
    th = run.tier == "thorough"
    names = ["b3f", "q3n", "b3l2"] + (["b4", "q4", "q4l", "q4t", "q3", "q3l"] if th else [])
    # a token that nobody holds and nobody gives back is capacity the pool never serves again: conservation counts for C19 too
    # fixed pools kept busy until their sample windows close with tokens held: still a counting gate (GateTrace)
    gate_stress(run, "C19", 4 if th else 2, test="^TestPoolLongRun$", fname="pool_gate_trace.ndjson", what="pool_long_run")
    wrapper_pipeline(run, "C19", names, [], {"gate", "starved", "lostwake", "early", "conserve"}, random_n=4000 if th else 800, extra_invs=LIVE, handoff=True,
                     temporal=("WakeUp",), serve=True)


# ------------------------------------------------------------------ DefaultLimiter (C09 C05, parts of C02 C20)
def limiter_cfg(strat, thr, script, maxsamp, maxage, emit=True):
    return ("CONSTANTS Strat = \"%s\" WSize = 10 MinW = 1 MaxW = 2 Threshold = %d Est0 = 2 ScriptName = \"%s\" MaxAge = %d "
            "MaxCount = 11 MaxSamp = %d Emit = %s\nINIT Init\nNEXT Next\nINVARIANTS InvC InvE InvW\nCHECK_DEADLOCK FALSE\n") % (
                strat, thr, script, maxage, maxsamp, "TRUE" if emit else "FALSE")


def det_reject_report(run, prop, rejects, tp, what, classify):
    rows = None
    for rj in rejects:
        if rows is None:
            rows = vlib.read_ndjson(tp)
        tr = [x for x in rows if x["trace"] == rj["trace"]]
        n = sum(1 for x in rows[: rj["line"]] if x["trace"] == rj["trace"])
        upto = tr[:n]
        sig = classify(rj, upto)
        if sig is None:
            continue
        run.report("%s: recorded history %d rejected at its step %d (%s): the contract fixes %s, the code did %s" % (
            what, rj["trace"], n - 1, rj["why"], json.dumps(rj["expected"])[:400], json.dumps(rj["logged"])[:400]),
            {"trace": upto, "reject": rj, "rerun": "VERIF_SEED=%d bin/check %s --tier %s" % (run.seed, prop, run.tier)}, sig)


def limiter_pipeline(run, prop, classify_mismatch, classify_reject, graphs=True, big=False):
    th = run.tier == "thorough"
    indir = os.path.join(run.scratch, "in")
    os.makedirs(indir, exist_ok=True)
    # big (the thorough tier of the properties that own the window semantics): two window closings per history; the edge-cover
    # replay of those graphs takes about twenty minutes, so the other properties keep the one-closing graphs in both tiers
    cfgs = {"simple_t1": ("simple", 1, "a", 2 if big else 1, 2), "precise_t0": ("precise", 0, "b", 2 if big else 1, 1)}
    if not graphs:
        cfgs = {}
    for name, (strat, thr, script, ms, ma) in cfgs.items():
        r = run.tlc("LimiterMC", name + ".cfg", cfg_text=limiter_cfg(strat, thr, script, ms, ma), label="mc+gen:Limiter/" + name)
        if r.error or not r.ok:
            raise Machinery("TLC %s: %s %s\n%s" % (r.label, r.error, r.violation, r.raw[-3000:]))
        run.states += r.distinct
        run.transitions += r.generated
        n = emit_graph(run, r, os.path.join(indir, "limiter_%s.ndjson" % name))
        if n != r.generated - 1:
            raise Machinery("TLC %s printed %d transitions but generated %d states" % (r.label, n, r.generated))
    exhaustive = True
    reps = []
    if graphs:
        out, _ = run.go("^TestLimiterReplay$", env={"VERIF_IN": indir}, timeout=3600 if big else 1200)
        reps = json.load(open(os.path.join(out, "limiter_replay.json")))
    for rep in reps:
        label = "Limiter/" + os.path.basename(rep["file"])
        for m in graph_report(run, prop, rep, label):
            sig = classify_mismatch(m)
            if sig is None:
                continue
            run.report("DefaultLimiter: after %s (path of %d calls) the real limiter returned %s / state %s, the contract fixes %s / %s" % (
                json.dumps(m["op"]), len(m["path"] or []), m["got_res"], m["got_obs"], m["exp_res"], m["exp_obs"]),
                {"graph": label, "mismatch": m, "rerun": "bin/check %s" % prop}, sig)
        exhaustive = exhaustive and rep["edges_unreachable"] == 0
    run.exhaustive = exhaustive
    n = 600 if th else 150
    # histories made of concurrent bursts of completions (every completion is folded exactly once): the bulk under C09
    nb = (200 if th else 40) if prop == "C09" else 4
    out, _ = run.go("^TestLimiterRandom$", env={"VERIF_N": n, "VERIF_BURSTY": nb}, timeout=1800)
    tp = os.path.join(out, "limiter_trace.ndjson")
    rows = vlib.read_ndjson(tp)
    closes = sum(1 for x in rows if x["ev"] == "Op" and x["res"].get("samples"))
    drops = sum(1 for x in rows if x["ev"] == "Op" and any(sm.get("drop") for sm in x["res"].get("samples") or []))
    if closes < 10 or drops < 1:
        raise Machinery("random limiter histories are vacuous: %d window closings, %d with a drop" % (closes, drops))
    bursts = [x for x in rows if x["ev"] == "Op" and x["op"]["op"] == "burst"]
    if len(bursts) < nb:
        raise Machinery("random limiter histories hold only %d concurrent bursts" % len(bursts))
    n += nb
    run.extra["random_histories"] = {"histories": n, "calls": len(rows) - n, "windows_closed": closes, "closed_with_drop": drops,
                                     "bursty_histories": nb, "concurrent_bursts": len(bursts),
                                     "completions_in_bursts": sum(len(x["op"]["items"]) for x in bursts)}
    rejects, total = validate_sharded(run, "LimiterTrace", "Limiter_trace.cfg", tp)
    run.traces += n
    run.events += total
    run.sample({"recorded_history_excerpt": rows[:3]})
    det_reject_report(run, prop, rejects, tp, "DefaultLimiter", classify_reject)
    run.assumptions += [
        "histories are sequential except for bursts of completions issued from concurrent goroutines while the window cannot become ready (their outcome is order independent); completions racing for an update are explored by C01/C02's machinery",
        "exhaustive part: window size 10 (the code's minimum), limit trajectory of the scripted algorithm, ages <= 2 ticks, one or two window closings",
        "virtual clock of testing/synctest makes every RTT exact",
    ]


def _res_field_differs(m, field):
    try:
        a, b = json.loads(m["exp_res"] or "{}"), json.loads(m["got_res"] or "{}")
        return a.get(field) != b.get(field)
    except Exception:
        return True


def window_conc(run, prop):
    """The sampling window under concurrent completions: TLC explores every interleaving of the two critical sections
    (fold, update) of three completions (spec/WindowConc.tla: NoLoss, SeenOnce, OnlyReady, DropExact); the snapshot
    design must violate NoLoss; the real limiter is driven through every edge (schedule point default.afterFold)."""
    indir = os.path.join(run.scratch, "in_wc")
    os.makedirs(indir, exist_ok=True)
    for name in ("a", "b"):
        r = run.tlc("WindowConc", "WindowConc_mc_%s.cfg" % name, workers=1, label="mc+gen:WindowConc/" + name)
        if r.error or not r.ok:
            raise Machinery("TLC %s: %s %s\n%s" % (r.label, r.error, r.violation, r.raw[-3000:]))
        run.states += r.distinct
        run.transitions += r.generated
        n = emit_graph(run, r, os.path.join(indir, "windowconc_%s.ndjson" % name))
        if n != r.generated - 1:
            raise Machinery("TLC %s printed %d transitions but generated %d states" % (r.label, n, r.generated))
    run.neg("WindowConc", "WindowConc_neg_snapshot.cfg")
    out, _ = run.go("^TestWindowConc$", env={"VERIF_IN": indir}, timeout=1200)
    for rep in json.load(open(os.path.join(out, "windowconc_replay.json"))):
        label = "WindowConc/" + os.path.basename(rep["file"])
        for m in graph_report(run, prop, rep, label):
            run.report("DefaultLimiter, concurrent completions: after the schedule %s the step %s left window / delivered samples %s / %s, the model (every folded completion is handed to the algorithm exactly once) fixes %s / %s" % (
                json.dumps(m["path"]), json.dumps(m["op"]), m["got_obs"], m["got_res"], m["exp_obs"], m["exp_res"]),
                {"graph": label, "mismatch": m, "rerun": "bin/check %s" % prop}, {"kind": "default", "what": "concurrent fold"})
    run.assumptions.append("concurrent completions: three calls, each parked between its fold and its update; window pre-filled sequentially to one or zero short of ready")


def c09(run):
    windowed_part(run, "C09")
    window_conc(run, "C09")
    # every mismatch of the Limiter contract is about the window / the samples handed to the algorithm
    limiter_pipeline(run, "C09", lambda m: {"kind": "default", "what": "samples" if _res_field_differs(m, "samples") else "state"},
                     lambda rj, tr: {"kind": "default", "why": rj["why"]}, big=run.tier == "thorough")


def c05(run):
    def mm(m):
        try:
            a, b = json.loads(m["exp_obs"] or "{}"), json.loads(m["got_obs"] or "{}")
        except Exception:
            return {"kind": "default"}
        if a.get("limit") != b.get("limit") or a.get("bl") != b.get("bl") or a.get("est") != b.get("est"):
            return {"kind": "default", "what": "enforced limit"}
        return None

    def rj(r, tr):
        e, g = r.get("expected") or {}, r.get("logged") or {}
        ep, gp = (e.get("post") or e), (g.get("post") or g)
        if isinstance(ep, dict) and isinstance(gp, dict) and (ep.get("limit") != gp.get("limit") or ep.get("bl") != gp.get("bl")):
            return {"kind": "default", "what": "enforced limit"}
        return None
    limiter_pipeline(run, "C05", mm, rj)
    # two window-closing completions racing for the enforcement update (real time, bounded wait)
    out, _ = run.go("^TestEnforceAttack$", timeout=300)
    run.extra["enforce_attack"] = json.load(open(os.path.join(out, "enforce.json")))
    tp = os.path.join(out, "enforce_trace.ndjson")
    rejects, total = validate_sharded(run, "LimiterTrace", "Limiter_trace.cfg", tp)
    run.events += total
    run.traces += run.extra["enforce_attack"]["scenarios"]
    rows = vlib.read_ndjson(tp)
    for rjx in rejects:
        q = [x for x in rows if x["trace"] == rjx["trace"] and x["ev"] == "Quiet"]
        run.report("DefaultLimiter over the %s strategy: two window-closing completions raced; once quiet the strategy enforces %s while the algorithm's estimate is %s" % (
            q[0].get("strat") if q else "?", json.dumps(rjx["logged"].get("limit")), json.dumps(rjx["logged"].get("est"))),
            {"quiet": q, "reject": rjx, "rerun": "bin/check C05"}, {"kind": "default", "what": "stale limit after concurrent updates"})
    # the partition share half: exhaustive graph of the Partition contract (SetLimit / add / remove)
    partition_pipeline(run, "C05", lambda kind, m: {"kind": kind, "what": "share"}, only_limits=True)
    # a limit update racing AddPartition (and the other concurrent histories): shares against the limit in force once quiet
    partition_stress(run, "C05", 600 if run.tier == "thorough" else 60, aspect="shares")


# ------------------------------------------------------------------------------ C03
def _strip_sample(x):
    """res / {res, post} records without the in-flight sample of a grant (C20's business)."""
    if isinstance(x, dict):
        d = {k: _strip_sample(v) for k, v in x.items() if k != "sample"}
        return d if d else []   # TLA+'s empty function prints as an empty tuple
    return x


def _only_sample_differs(exp, got):
    try:
        a, b = (json.loads(exp) if isinstance(exp, str) else exp), (json.loads(got) if isinstance(got, str) else got)
    except Exception:
        return False
    return a != b and _strip_sample(a) == _strip_sample(b)


def partition_pipeline(run, prop, classify, only_limits=False, graphs=True, samples=False):
    """Shared by C03 (admission/bins) - the same machinery also yields the share observations of C05."""
    th = run.tier == "thorough"
    if not graphs:
        return partition_random(run, prop, classify, only_limits, samples)
    # 1. design level: the contract's consequences in every reachable state (small constants)
    suffix = "_th" if th else ""
    for kind in ("lookup", "predicate"):
        run.mc("PartitionMC", "Partition_mc_%s%s.cfg" % (kind, suffix), coverage=th)
    run.neg("PartitionMC", "Partition_neg_unknown.cfg")
    run.neg("PartitionMC", "Partition_neg_add.cfg")
    # 2. model -> code: every transition of the state graph on the real strategies
    indir = os.path.join(run.scratch, "in")
    os.makedirs(indir, exist_ok=True)
    for kind in ("lookup", "predicate"):
        r = run.tlc("PartitionMC", "Partition_gen_%s%s.cfg" % (kind, suffix), workers=1, label="gen:" + kind)
        if r.error or not r.ok:
            raise Machinery("gen %s: %s %s\n%s" % (kind, r.error, r.violation, r.raw[-2000:]))
        emit_graph(run, r, os.path.join(indir, "partition_%s.ndjson" % kind))
    out, _ = run.go("^TestPartitionReplay$", env={"VERIF_IN": indir})
    exhaustive = True
    for kind in ("lookup", "predicate"):
        rep = json.load(open(os.path.join(out, "replay_%s.json" % kind)))
        for m in graph_report(run, prop, rep, "Partition/" + kind):
            # the in-flight sample a grant emits belongs to C20 (samples=True: only those mismatches); everybody else looks
            # at the rest of the result and at the state
            sample_only = m["exp_obs"] == m["got_obs"] and _only_sample_differs(m["exp_res"], m["got_res"])
            if sample_only != samples:
                continue
            if only_limits:
                try:
                    a, b = json.loads(m["exp_obs"] or "{}"), json.loads(m["got_obs"] or "{}")
                    if a.get("limit") == b.get("limit") and a.get("bl") == b.get("bl") and a.get("ul") == b.get("ul"):
                        continue
                except Exception:
                    pass
            sig = classify(kind, m)
            run.report("%s strategy: after %s the real strategy returned %s / state %s, the contract fixes %s / %s" % (
                kind, json.dumps(m["op"]), m["got_res"], m["got_obs"], m["exp_res"], m["exp_obs"]),
                {"kind": kind, "mismatch": m, "rerun": "bin/check %s" % prop}, sig)
        exhaustive = exhaustive and rep["edges_unreachable"] == 0
    run.exhaustive = exhaustive
    partition_random(run, prop, classify, only_limits, samples)


def partition_random(run, prop, classify, only_limits=False, samples=False):
    th = run.tier == "thorough"
    # 3. code -> model: random long histories with large limits, dyadic fractions, dynamic partitions
    n = 800 if th else 200
    out, _ = run.go("^(TestPartitionRandom|TestPartitionMoved)$", env={"VERIF_N": n})
    tp = os.path.join(out, "partition_trace.ndjson")
    # histories of strategies one of whose partition objects has lived in another strategy before
    with open(tp, "a") as f:
        f.write(open(os.path.join(out, "partition_moved_trace.ndjson")).read())
    rows = vlib.read_ndjson(tp)
    if not any(x["trace"] >= 100000 for x in rows):
        raise Machinery("no moved-partition histories were recorded")
    rejects = validate_trace(run, "PartitionTrace", "Partition_trace.cfg", tp, len(rows))
    ntr = len([x for x in rows if x["ev"] == "Reset"])
    run.traces += ntr
    run.events += len(rows)
    run.sample({"trace_excerpt": rows[:4]})
    for rj in rejects:
        if _only_sample_differs(rj.get("expected"), rj.get("logged")) != samples:
            continue
        if only_limits:
            e, g = rj.get("expected") or {}, rj.get("logged") or {}
            ep, gp = (e.get("post") or e), (g.get("post") or g)
            if isinstance(ep, dict) and isinstance(gp, dict) and ep.get("limit") == gp.get("limit") and ep.get("bl") == gp.get("bl") and ep.get("ul") == gp.get("ul"):
                continue
        tr = [x for x in rows if x["trace"] == rj["trace"]]
        upto = [x for x in tr][: 1 + sum(1 for x in rows[: rj["line"]] if x["trace"] == rj["trace"])]
        sig = classify(upto[0]["cfg"]["kind"], {"op": rj.get("op"), "exp_res": json.dumps(rj["expected"].get("res")) if isinstance(rj["expected"], dict) else "", "trace": True, "why": rj["why"]})
        run.report("recorded history %d rejected by Partition contract at line %d (%s): expected %s, logged %s" % (
            rj["trace"], rj["line"], rj["why"], json.dumps(rj["expected"]), json.dumps(rj["logged"])),
            {"trace": upto, "reject": rj, "rerun": "VERIF_SEED=%d bin/check %s" % (run.seed, prop)}, sig)
    run.assumptions += [
        "TLC explores the contract for 3 partition objects, fractions in quarters, limits {1,2,4}, at most %d outstanding tokens; every transition of that graph is executed on the real strategies" % (7 if th else 5),
        "random histories use dyadic fractions (k/16) so that Go's float product limit*percent is exact",
        "calls are sequential in these drivers (the strategies serialise all calls behind one mutex)",
    ]


def partition_stress(run, prop, n, aspect="state"):
    """Free-running goroutines on real partitioned strategies; TLC searches each history for a linearisation (PartitionLin).
    aspect "state" (C03): results, bins and totals - the shares logged with some final observations are left out;
    aspect "shares" (C05): with the shares; a history that has no linearisation even without them is C03's and is not reported."""
    out, _ = run.go("^TestPartitionStress$", env={"VERIF_N": n}, timeout=900)
    tp = os.path.join(out, "partlin_trace.ndjson")
    rows = vlib.read_ndjson(tp)
    ops = sum(1 for x in rows if x["t"] == "b")
    refused = sum(1 for x in rows if x["t"] == "e" and not x["ok"])
    run.extra["partition_stress"] = {"histories": n, "calls": ops, "refusals": refused,
                                     "histories_with_shares": sum(1 for x in rows if x["t"] == "final" and "bl" in x.get("obs", {}))}
    if refused == 0:
        raise Machinery("partition stress histories are vacuous (no refusal)")

    def strip(lines):
        res = []
        for x in lines:
            if x["t"] == "final" and "bl" in x.get("obs", {}):
                x = dict(x, obs={k: v for k, v in x["obs"].items() if k != "bl"})
            res.append(x)
        return res

    def validate(lines, path, label):
        vlib.write_ndjson(path, lines)
        r = run.tlc("PartitionLin", "PartitionLin_trace.cfg", workers=1, env={"VERIF_TRACE": path}, label=label, jvm="-Xmx6g", timeout=1200)
        if r.error or r.violation:
            raise Machinery("PartitionLin failed to run: %s %s\n%s" % (r.error, r.violation, r.raw[-3000:]))
        marks = [int(x) for x in r.prints.get("MARK", [])]
        return max(marks) if marks else 0

    remaining = strip(rows) if aspect == "state" else rows
    for attempt in range(6):
        mark = validate(remaining, os.path.join(out, "pl_%d.ndjson" % attempt), "val:PartitionLin[%d lines]" % len(remaining))
        run.events += mark
        if mark == len(remaining):
            run.traces += len([x for x in remaining if x["t"] == "reset"])
            return
        bad = remaining[min(mark, len(remaining) - 1)]["trace"]
        hist = [x for x in remaining if x["trace"] == bad]
        kind = hist[0]["cfg"]["kind"]
        mine = True
        if aspect == "shares":
            h2 = strip(hist)
            mine = validate(h2, os.path.join(out, "pl_%d_plain.ndjson" % attempt), "val:PartitionLin[history %s without shares]" % bad) == len(h2)
        if mine:
            run.report("%s strategy: recorded concurrent history %d has no linearisation under the Partition contract%s (TLC consumed %d of its %d events)" % (
                kind, bad, " once the shares of its final observation are taken into account" if aspect == "shares" else "",
                sum(1 for x in remaining[:mark] if x["trace"] == bad), len(hist)),
                {"history": hist, "rerun": "VERIF_SEED=%d bin/check %s --tier %s" % (run.seed, prop, run.tier)}, {"kind": kind, "what": "linearisability"})
        else:
            run.extra.setdefault("not_linearisable_even_without_shares", []).append(bad)
        remaining = [x for x in remaining if x["trace"] != bad]
    run.extra["partition_stress_note"] = "stopped after 6 non-linearisable histories"


def c03(run):
    def classify(kind, m):
        return {"kind": kind, "op": (m.get("op") or {}).get("op") if isinstance(m.get("op"), dict) else None}
    partition_pipeline(run, "C03", classify)
    partition_stress(run, "C03", 1000 if run.tier == "thorough" else 120)


# ------------------------------------------------------------------ limit algorithms (C04 C06 C07 C08 C15 C16)
def aimd_cfg(bnum, bden, inc, initial, maxl):
    return ("CONSTANTS BNum = %d BDen = %d Inc = %d Initial = %d MaxL = %d Emit = TRUE\nINIT Init\nNEXT Next\n"
            "INVARIANTS DropLowers DropRunReachesFloor Bounds Notified\nCHECK_DEADLOCK FALSE\n") % (bnum, bden, inc, initial, maxl)


def functions_part(run, prop, indir):
    """limit/functions: TLC checks the contract (total, >= 1, monotone, below its argument) and prints one expected value per
    (baseline, n); every case is evaluated on the real integer and float functions."""
    th = run.tier == "thorough"
    cfgt = ("CONSTANTS MaxN = %d Emit = TRUE\nINIT Init\nNEXT Next\nINVARIANTS AtLeastOne Monotone BelowItsArgument\nCHECK_DEADLOCK FALSE\n") % (5000 if th else 1300)
    r = run.tlc("LimitFunctions", "fn.cfg", cfg_text=cfgt, workers=1, label="mc+gen:LimitFunctions")
    if r.error or not r.ok:
        raise Machinery("TLC %s: %s %s\n%s" % (r.label, r.error, r.violation, r.raw[-3000:]))
    cases = r.json_prints("CASE")
    if len(cases) < 3000:
        raise Machinery("LimitFunctions printed %d cases" % len(cases))
    vlib.write_ndjson(os.path.join(indir, "function_cases.ndjson"), cases)
    out, _ = run.go("^TestFunctionCases$", env={"VERIF_IN": indir})
    rep = json.load(open(os.path.join(out, "function_cases.json")))
    run.extra["function_cases"] = rep["cases"]
    run.traces += rep["cases"]
    for m in (rep["mismatches"] or [])[:10]:
        run.report("limit/functions at baseline %s, n = %s: the real functions give %s, the contract fixes log10 %s / sqrt %s" % (
            m["case"]["b"], m["case"]["n"], json.dumps(m["got"]), m["case"]["log10"], m["case"]["sqrt"]),
            {"case": m, "rerun": "bin/check %s" % prop}, {"algo": "functions", "class": "functions"})


def limits_pipeline(run, prop, classes, twin=False, aimd=True, vegas=True):
    th = run.tier == "thorough"
    indir = os.path.join(run.scratch, "in")
    os.makedirs(indir, exist_ok=True)
    if classes & {"bounds", "demand"}:
        functions_part(run, prop, indir)
    if aimd:
        # exact AIMD model: design check + every transition replayed on the real AIMDLimit
        for name, c in {"half": (1, 2, 1, 10, 60 if th else 40), "seven8": (7, 8, 2, 3, 60 if th else 40), "one": (1, 1, 1, 5, 30), "nine10": (9, 10, 1, 10, 40), "quarter": (1, 4, 1, 10, 40)}.items():
            r = run.tlc("Aimd", name + ".cfg", cfg_text=aimd_cfg(*c), label="mc+gen:Aimd/" + name)
            if r.error or not r.ok:
                raise Machinery("TLC %s: %s %s\n%s" % (r.label, r.error, r.violation, r.raw[-3000:]))
            run.states += r.distinct
            run.transitions += r.generated
            emit_graph(run, r, os.path.join(indir, "aimd_%s.ndjson" % name))
        out, _ = run.go("^TestAimdReplay$", env={"VERIF_IN": indir})
        for rep in json.load(open(os.path.join(out, "aimd_replay.json"))):
            for m in graph_report(run, prop, rep, "Aimd/" + os.path.basename(rep["file"])):
                run.report("AIMD: after sample %s the real limit is %s (notified %s), the exact model fixes %s (%s)" % (
                    json.dumps(m["op"]), m["got_obs"], m["got_res"], m["exp_obs"], m["exp_res"]),
                    {"mismatch": m, "rerun": "bin/check %s" % prop}, {"algo": "aimd", "class": "exact"})
    if vegas:
        # exact Vegas model in the float-exact sub-domain: design check of the five Vegas properties in every reachable
        # state, then every transition on the real VegasLimit
        for name, (mx, ini) in {"120": (120, 20), "20": (20, 3)}.items() if not th else {"120": (120, 20), "20": (20, 3), "300": (300, 50)}.items():
            cfgt = ("CONSTANTS MaxLimit = %d Initial = %d Rtts = {0, 1, 2, 4, 8, 16} Emit = TRUE\nINIT Init\nNEXT Next\n"
                    "INVARIANTS Bounds DropNeverRaises AppLimitedNeverRaises Monotone BaselineIsMin HealthyRunRecovers DropRunReachesFloor\nCHECK_DEADLOCK FALSE\n") % (mx, ini)
            r = run.tlc("VegasModel", "v%s.cfg" % name, cfg_text=cfgt, label="mc+gen:VegasModel/" + name)
            if r.error or not r.ok:
                raise Machinery("TLC %s: %s %s\n%s" % (r.label, r.error, r.violation, r.raw[-3000:]))
            run.states += r.distinct
            run.transitions += r.generated
            emit_graph(run, r, os.path.join(indir, "vegas_%s.ndjson" % name))
        out, _ = run.go("^TestVegasReplay$", env={"VERIF_IN": indir})
        for rep in json.load(open(os.path.join(out, "vegas_replay.json"))):
            mism = graph_report(run, prop, rep, "VegasModel/" + os.path.basename(rep["file"]))
            run.extra.setdefault("vegas_exact_model_mismatches", 0)
            run.extra["vegas_exact_model_mismatches"] += len(mism)
            for m in mism:
                # a deviation from the exact model is a violation only if the real step itself breaks the property
                try:
                    frm = json.loads(m["path"] and "{}" or "{}")
                    got, exp = json.loads(m["got_obs"] or "{}"), json.loads(m["exp_obs"] or "{}")
                    op = m["op"]
                except Exception:
                    continue
                bad = None
                ge = got.get("est")
                if ge is None or ge < 1:
                    bad = "bounds"
                elif op.get("drop") and exp.get("est") is not None and ge > exp["est"] and "loss" in classes:
                    bad = "loss"
                elif not op.get("drop") and exp.get("est") is not None and ge > exp["est"] and "demand" in classes:
                    bad = "demand"
                if bad and bad in classes | {"bounds"}:
                    run.report("Vegas: after %s the real limit went to %s where the exact model (and the property) allow at most %s" % (json.dumps(op), m["got_obs"], m["exp_obs"]),
                               {"mismatch": m, "rerun": "bin/check %s" % prop}, {"algo": "vegas", "class": bad})
    n = 1200 if th else 240
    out, _ = run.go("^TestLimitRandom$", env={"VERIF_N": n}, timeout=1200)
    tp = os.path.join(out, "limit_trace.ndjson")
    files = [tp]
    if twin:
        out2, _ = run.go("^TestLimitTwin$", env={"VERIF_N": 600 if th else 180}, timeout=1200)
        files.append(os.path.join(out2, "twin_trace.ndjson"))
    stats = {"samples": 0, "probes": 0, "drops": 0, "zero_rtt": 0, "runs": 0, "twins": 0, "twins_strict": 0, "by_algo": {}}
    for f in files:
        rejects, total = validate_sharded(run, "LimitTrace", "Limit_trace.cfg", f)
        run.events += total
        cfg = None
        with open(f) as fh:
            for line in fh:
                x = json.loads(line)
                if x["ev"] == "Reset":
                    cfg = x["cfg"]
                    run.traces += 1
                elif x["ev"] == "Sample":
                    stats["samples"] += 1
                    k = cfg["algo"] + "/" + cfg["wrap"]
                    stats["by_algo"][k] = stats["by_algo"].get(k, 0) + 1
                    stats["probes"] += 1 if x["obs"]["probe"] else 0
                    stats["drops"] += 1 if x["in"]["drop"] else 0
                    stats["zero_rtt"] += 1 if x["in"]["zero"] else 0
                elif x["ev"] == "RunEnd":
                    stats["runs"] += 1
                elif x["ev"] == "Twin":
                    stats["twins"] += 1
                    stats["twins_strict"] += 1 if x["esthi"] < x["estlo"] else 0
        seen = set()
        rows = None
        for rj in rejects:
            if rj["class"] == "bounds" and "finite" in rj["why"] and "demand" in classes:
                rj = dict(rj, **{"class": "demand", "why": rj["why"] + " (such a state is stuck: nothing raises it again)"})
            if rj["class"] not in classes:
                run.extra.setdefault("rejections_of_other_classes", {})
                run.extra["rejections_of_other_classes"][rj["class"]] = run.extra["rejections_of_other_classes"].get(rj["class"], 0) + 1
                continue
            key = (rj["trace"], rj["class"])
            if key in seen:
                continue
            seen.add(key)
            if rows is None:
                rows = vlib.read_ndjson(f)
            tr = [x for x in rows if x["trace"] == rj["trace"] and x.get("i", 0) <= rj["i"]] if rj["class"] != "monotone" else [x for x in rows if x["trace"] == rj["trace"] and x["ev"] == "Reset"] + [rj["logged"]]
            cfg = tr[0]["cfg"] if tr and tr[0]["ev"] == "Reset" else {}
            run.report("%s limit (%s): sample %d of recorded sequence %d rejected by the contract (%s: %s)" % (
                cfg.get("algo"), cfg.get("wrap"), rj["i"], rj["trace"], rj["class"], rj["why"]),
                {"config": cfg, "sequence": tr[-40:], "reject": rj, "rerun": "VERIF_SEED=%d bin/check %s --tier %s" % (run.seed, prop, run.tier)},
                {"algo": cfg.get("algo"), "class": rj["class"]})
    if "bounds" in classes:
        # a grid of (smoothing, minimum / maximum) pairs, each pinned on its floor and on its ceiling
        out4, _ = run.go("^TestBoundsGrid$", timeout=900)
        run.extra["bounds_grid"] = json.load(open(os.path.join(out4, "grid.json")))
        gp = os.path.join(out4, "grid_trace.ndjson")
        rejects, total = validate_sharded(run, "LimitTrace", "Limit_trace.cfg", gp)
        run.events += total
        run.traces += total
        seen = set()
        for rj in rejects:
            lg = rj["logged"]
            if lg["algo"] in seen:
                continue
            seen.add(lg["algo"])
            run.report("%s limit with smoothing %s, minimum %s, maximum %s reported estimates in [%s, %s] while pinned on its bounds (%s)" % (
                lg["algo"], lg["smoothing"], lg["floor"], lg["ceil"], lg["minest"], lg["maxest"], rj["why"]),
                {"reject": rj, "rerun": "bin/check %s --tier %s" % (prop, run.tier)}, {"algo": lg["algo"], "class": "bounds-grid"})
    if classes & {"loss", "demand"}:
        # two samples racing (real time, bounded wait): the result is that of one of the two serial orders
        out3, _ = run.go("^TestSampleRace$", env={"VERIF_N": 24 if th else 8}, timeout=600)
        run.extra["sample_race"] = json.load(open(os.path.join(out3, "race.json")))
        rp = os.path.join(out3, "race_trace.ndjson")
        rejects, total = validate_sharded(run, "LimitTrace", "Limit_trace.cfg", rp)
        run.events += total
        run.traces += total
        for rj in rejects[:25]:
            if rj["class"] not in classes:
                continue
            lg = rj["logged"]
            run.report("%s limit: samples %s and %s issued at once from estimate %s ended at %s; the serial orders give %s and %s" % (
                lg.get("algo"), json.dumps(lg.get("a")), json.dumps(lg.get("b")), lg.get("before"), lg.get("est"), lg.get("ab"), lg.get("ba")),
                {"reject": rj, "rerun": "VERIF_SEED=%d bin/check %s --tier %s" % (run.seed, prop, run.tier)}, {"algo": lg.get("algo"), "class": rj["class"] + "-concurrent"})
    run.extra["limit_traces"] = stats
    if stats["probes"] == 0 or stats["drops"] == 0 or stats["zero_rtt"] == 0 or stats["runs"] == 0 or (twin and stats["twins_strict"] == 0):
        raise Machinery("limit sequences are vacuous: %s" % stats)
    with open(tp) as fh:
        run.sample({"recorded_samples": [json.loads(next(fh)) for _ in range(3)]})
    run.extra["rejection_classes_checked"] = sorted(classes)
    run.assumptions += [
        "AIMD is modelled exactly (integer arithmetic, dyadic back-off ratios and 9/10); Vegas, Gradient and Gradient2 are floating-point: only the contract's order relations on exactly encoded values are checked, never a numeric value",
        "configuration preconditions: Gradient initial limit >= queue allowance and >= minimum, rtt tolerance >= 1; Vegas probe multiplier >= 4 (with 1 or 2 every sample at an estimate below 2 is a probe, which C15's own bound demands, and nothing can grow)",
        "baselines are compared with the float64 value of the RTT (identical below 2^53)",
        "run bounds (drop run reaches the floor, healthy run the ceiling) are closed formulas computed by the harness, documented in harness/limits_test.go",
    ]


def c04(run):
    limits_pipeline(run, "C04", {"bounds"})


def c06(run):
    limits_pipeline(run, "C06", {"loss"})


def c07(run):
    limits_pipeline(run, "C07", {"demand"})


def c08(run):
    limits_pipeline(run, "C08", {"monotone"}, twin=True, aimd=False)


def c15(run):
    limits_pipeline(run, "C15", {"baseline"}, aimd=False)


def c16(run):
    limits_pipeline(run, "C16", {"notify"}, vegas=False)
    windowed_part(run, "C16", estimate_only=True)
    # the two limits no sample moves: settable (explicit sets, also two sets overtaking each other) and fixed
    out, _ = run.go("^TestSettableRandom$", env={"VERIF_N": 600 if run.tier == "thorough" else 90, "VERIF_RACES": 200000 if run.tier == "thorough" else 30000}, timeout=600)
    info = json.load(open(os.path.join(out, "settable.json")))
    run.extra["settable"] = info
    if info["sets"] < 50:
        raise Machinery("settable sequences are vacuous: %s" % info)
    sp = os.path.join(out, "settable_trace.ndjson")
    rejects, total = validate_sharded(run, "LimitTrace", "Limit_trace.cfg", sp)
    run.events += total
    run.traces += info["sequences"] + info["set_races"]
    rows = None
    seen = set()
    for rj in rejects:
        lg = rj["logged"]
        if lg.get("ev") == "Concurrent":
            if "race" in seen:
                continue
            seen.add("race")
            run.report("settable limit: explicit sets issued at once were delivered as %s, the listener was last told %s but EstimatedLimit reports %s" % (
                lg.get("delivered"), lg.get("last"), lg.get("est")), {"reject": rj, "rerun": "bin/check C16"}, {"algo": "settable", "class": "notify-concurrent"})
            continue
        if lg.get("ev") == "Registered":
            run.report("%s limit: eight listeners registered at the same instant (directly and through the traced wrapper): in %s of %s rounds one of them was never told of the next change" % (
                lg.get("algo"), lg.get("lost"), lg.get("rounds")), {"reject": rj, "rerun": "bin/check C16"}, {"algo": lg.get("algo"), "class": "notify-registration"})
            continue
        if lg.get("ev") == "Inside":
            run.report("settable limit (%s): a listener reading the estimate back while it was being notified saw (delivered, estimate) = %s" % (
                lg.get("wrap"), lg.get("pairs")), {"reject": rj, "rerun": "bin/check C16"}, {"algo": "settable", "class": "notify-inside", "wrap": lg.get("wrap")})
            continue
        if rj["class"] != "notify" or rj["trace"] in seen:
            continue
        seen.add(rj["trace"])
        if rows is None:
            rows = vlib.read_ndjson(sp)
        tr = [x for x in rows if x["trace"] == rj["trace"] and x.get("i", 0) <= rj["i"]]
        cfg = tr[0]["cfg"] if tr else {}
        run.report("%s limit (%s): step %d of recorded sequence %d rejected by the contract (%s)" % (cfg.get("algo"), cfg.get("wrap"), rj["i"], rj["trace"], rj["why"]),
                   {"config": cfg, "sequence": tr[-30:], "reject": rj, "rerun": "VERIF_SEED=%d bin/check C16" % run.seed}, {"algo": cfg.get("algo"), "class": "notify"})
    # design level: store and notify as one critical section (what every implementation does on this tree); storing before the
    # lock (SettableLimit as delivered) or notifying after it (a seeded change) lets the last value delivered differ for good
    ncfg = 'CONSTANTS Procs = {1, 2, 3} Variant = "%s"\nSPECIFICATION Spec\nINVARIANT LastIsValue\nCHECK_DEADLOCK FALSE\n'
    run.mc("Notify", "n_atomic.cfg", cfg_text=ncfg % "atomic", label="mc:Notify/atomic")
    run.neg("Notify", "n_storefirst.cfg", cfg_text=ncfg % "storefirst", label="neg:Notify/store-before-lock")
    run.neg("Notify", "n_notifyafter.cfg", cfg_text=ncfg % "notifyafter", label="neg:Notify/notify-after-unlock")
    # two samples racing (real time, bounded wait): the parked notification must not be overtaken
    out, _ = run.go("^TestNotifyAttack$", timeout=300)
    run.extra["notify_attack"] = json.load(open(os.path.join(out, "notify.json")))
    tp = os.path.join(out, "notify_trace.ndjson")
    rejects, total = validate_sharded(run, "LimitTrace", "Limit_trace.cfg", tp)
    run.events += total
    run.traces += total
    for rj in rejects:
        run.report("%s limit: two concurrent samples; the listener was last told %s but EstimatedLimit reports %s" % (rj["logged"].get("algo"), rj["logged"].get("last"), rj["logged"].get("est")),
                   {"reject": rj, "rerun": "bin/check C16"}, {"algo": rj["logged"].get("algo"), "class": "notify-concurrent"})


def measure_part(run, prop):
    th = run.tier == "thorough"
    n = 3000 if th else 360
    out, _ = run.go("^TestMeasureRandom$", env={"VERIF_N": n})
    tp = os.path.join(out, "measure_trace.ndjson")
    rejects, total = validate_sharded(run, "MeasureTrace", "Measure_trace.cfg", tp)
    run.traces += n
    run.events += total
    rows = None
    seen = set()
    for rj in rejects:
        key = (rj["kind"], rj["why"])
        if key in seen:
            continue
        seen.add(key)
        if rows is None:
            rows = vlib.read_ndjson(tp)
        tr = [x for x in rows if x["trace"] == rj["trace"]][:60]
        run.report("%s measurement: recorded sequence %d rejected (%s)" % (rj["kind"], rj["trace"], rj["why"]),
                   {"sequence": tr, "reject": rj, "rerun": "VERIF_SEED=%d bin/check %s" % (run.seed, prop)}, {"kind": rj["kind"], "why": rj["why"]})
    with open(tp) as fh:
        run.sample({"measurement_sequence_excerpt": [json.loads(next(fh)) for _ in range(3)]})
    # an Update parked inside its operation while a second call (Add / Reset / Update) is made on the same instance
    out, _ = run.go("^TestMeasureRace$", env={"VERIF_N": 16 if th else 4}, timeout=600)
    run.extra["measure_race"] = json.load(open(os.path.join(out, "measure_race.json")))
    rp = os.path.join(out, "measure_race_trace.ndjson")
    rejects, tot2 = validate_sharded(run, "MeasureTrace", "Measure_trace.cfg", rp)
    run.traces += tot2
    run.events += tot2
    seen = set()
    for rj in rejects:
        lg = rj["logged"]
        key = (lg["kind"], lg["second"])
        if key in seen:
            continue
        seen.add(key)
        run.report("%s measurement: Update overlapping %s left %s; Update-then-%s gives %s, %s-then-Update gives %s" % (
            lg["kind"], lg["second"], json.dumps(lg["got"]), lg["second"], json.dumps(lg["ab"]), lg["second"], json.dumps(lg["ba"])),
            {"reject": rj, "rerun": "VERIF_SEED=%d bin/check %s" % (run.seed, prop)}, {"kind": lg["kind"], "why": "update-race-" + lg["second"]})
    return total + tot2


def c18(run):
    measure_part(run, "C18")
    # the sample window as used by the default limiter: exact fold on every transition of the Limiter graph
    limiter_pipeline(run, "C18", lambda m: {"kind": "window"} if _res_field_differs(m, "samples") else None, lambda rj, tr: None, graphs=True)
    run.assumptions += ["numerical accuracy of the floating-point primitives is not modelled (order relations on exact bit patterns only)"]


def windowed_part(run, prop, estimate_only=False):
    th = run.tier == "thorough"
    if not estimate_only:
        windowed_graph(run, prop, th)
    n = 2000 if th else 200
    out, _ = run.go("^TestWindowedRandom$", env={"VERIF_N": n})
    tp = os.path.join(out, "windowed_trace.ndjson")
    rejects, total = validate_sharded(run, "WindowedTrace", "Windowed_trace.cfg", tp)
    traced = set()
    with open(tp) as fh:
        for line in fh:
            if '"ev":"Reset"' in line and '"traced"' in line:
                traced.add(json.loads(line)["trace"])
    if estimate_only:
        # C16: the wrapper reports exactly its delegate's estimate, also when the delegate moved without the wrapper, and the
        # traced wrapper forwards every sample unchanged
        rejects = [rj for rj in rejects if "estimate" in rj["why"] or rj["trace"] in traced]
    else:
        rejects = [rj for rj in rejects if rj["trace"] not in traced]
    run.traces += n
    run.events += total
    closes = moved = 0
    with open(tp) as fh:
        for line in fh:
            if '"out":[{' in line:
                closes += 1
            if '"ext":true' in line:
                moved += 1
    if closes < 10 or moved < 10:
        raise Machinery("windowed sequences are vacuous (%d window closings, %d external changes of the delegate)" % (closes, moved))
    run.extra["windowed"] = {"sequences": n, "calls": total - n, "windows_closed": closes, "delegate_moved_without_the_wrapper": moved}
    rows = None
    seen = set()
    for rj in rejects:
        if rj["trace"] in seen:
            continue
        seen.add(rj["trace"])
        if rows is None:
            rows = vlib.read_ndjson(tp)
        tr = [x for x in rows if x["trace"] == rj["trace"]]
        n0 = sum(1 for x in rows[: rj["line"]] if x["trace"] == rj["trace"])
        run.report("windowed limit: recorded sequence %d rejected (%s): expected %s, forwarded %s" % (rj["trace"], rj["why"], json.dumps(rj["expected"]), json.dumps(rj["logged"])),
                   {"sequence": tr[:n0], "reject": rj, "rerun": "VERIF_SEED=%d bin/check %s" % (run.seed, prop)}, {"kind": "windowed", "why": rj["why"]})


def windowed_graph(run, prop, th):
    # model -> code: every transition of the Windowed contract graph on a real WindowedLimit
    indir = os.path.join(run.scratch, "in_w")
    os.makedirs(indir, exist_ok=True)
    for name, (thr, mc, mt) in ({"t1": (1, 2, 4), "t5": (5, 3, 4)} if th else {"t1": (1, 2, 3)}).items():
        cfgt = "CONSTANTS WSize = 10 Threshold = %d MaxCount = %d MaxT = %d Emit = TRUE\nINIT Init\nNEXT Next\nINVARIANT MeanWithinWindow\nCHECK_DEADLOCK FALSE\n" % (thr, mc, mt)
        r = run.tlc("WindowedMC", "w%s.cfg" % name, cfg_text=cfgt, label="mc+gen:Windowed/" + name)
        if r.error or not r.ok:
            raise Machinery("TLC %s: %s %s\n%s" % (r.label, r.error, r.violation, r.raw[-3000:]))
        run.states += r.distinct
        run.transitions += r.generated
        emit_graph(run, r, os.path.join(indir, "windowed_%s.ndjson" % name))
    out, _ = run.go("^TestWindowedReplay$", env={"VERIF_IN": indir}, timeout=900)
    for rep in json.load(open(os.path.join(out, "windowed_replay.json"))):
        for m in graph_report(run, prop, rep, "Windowed/" + os.path.basename(rep["file"])):
            run.report("windowed limit: after sample %s the delegate received %s, the contract fixes %s" % (json.dumps(m["op"]), m["got_res"], m["exp_res"]),
                       {"mismatch": m, "rerun": "bin/check %s" % prop}, {"kind": "windowed", "why": "graph replay"})


# ------------------------------------------------------------------------------ C20
def registry_cfg(script, variant, invs):
    return 'CONSTANTS ScriptName = "%s" Variant = "%s" MaxTicks = 3 MaxPollers = 3\nINIT Init\nNEXT Next\nINVARIANTS %s\nCHECK_DEADLOCK FALSE\n' % (script, variant, invs)


def c20(run):
    th = run.tier == "thorough"
    allinv = "AtMostOnePoller PollOnlyWhileStarted StopTerminates NoPollerAfterStop"
    for script in ("seq", "two", "mix"):
        run.mc("Registry", "r.cfg", cfg_text=registry_cfg(script, "repaired", allinv), label="mc:Registry/" + script)
    run.neg("Registry", "n1.cfg", cfg_text=registry_cfg("seq", "delivered", "AtMostOnePoller"), label="neg:started-never-set")
    run.neg("Registry", "n2.cfg", cfg_text=registry_cfg("seq", "delivered", "NoPollerAfterStop"), label="neg:started-never-set/stop-is-noop")
    run.neg("Registry", "n3.cfg", cfg_text=registry_cfg("seq", "flagonly", "StopTerminates"), label="neg:flag-only-repair-deadlocks")
    n = 1500 if th else 200
    out, _ = run.go("^(TestRegistryRandom|TestRegistryStopOverlap)$", env={"VERIF_N": n}, timeout=600)
    tp = os.path.join(out, "registry_trace.ndjson")
    # a second Stop or a Start while a Stop waits for a poll in progress (real time)
    with open(tp, "a") as f:
        f.write(open(os.path.join(out, "registry_overlap_trace.ndjson")).read())
    rows = vlib.read_ndjson(tp)
    polls = sum(1 for x in rows if x["ev"] == "Op" and any(v > 0 for v in x["obs"]["polls"].values()))
    fw = sum(1 for x in rows if x["ev"] == "Op" and x["op"]["op"] == "sample")
    if polls == 0 or fw == 0:
        raise Machinery("registry sequences are vacuous (polls %d, samples %d)" % (polls, fw))
    run.extra["registry_sequences"] = {"sequences": n, "ops": len(rows) - 2 * n, "ops_with_polls_seen": polls, "samples_forwarded": fw}
    rejects, total = validate_sharded(run, "RegistryTrace", "Registry_trace.cfg", tp)
    run.traces += n
    run.events += total
    run.sample({"registry_sequence_excerpt": rows[:5]})
    seen = set()
    for rj in rejects:
        if rj["trace"] in seen:
            continue
        seen.add(rj["trace"])
        tr = [x for x in rows if x["trace"] == rj["trace"]]
        kind = tr[0]["cfg"]["kind"] if "cfg" in tr[0] else tr[0].get("kind", "?")
        run.report("%s registry: sequence %d rejected (%s) at %s: expected %s, observed %s" % (
            kind, rj["trace"], rj["why"], json.dumps(rj["op"]), json.dumps(rj["expected"]), json.dumps(rj["logged"])),
            {"sequence": tr, "reject": rj, "rerun": "VERIF_SEED=%d bin/check C20" % run.seed}, {"kind": kind, "op": rj["op"].get("op")})
    # naming: every constructor x requested prefix, the address-based Datadog constructor against a fake agent on loopback UDP
    out, _ = run.go("^TestRegistryNaming$", timeout=300)
    tp = os.path.join(out, "naming_trace.ndjson")
    rows = vlib.read_ndjson(tp)
    named = [x for x in rows if x["ev"] == "Naming"]
    skipped = [x for x in rows if x["ev"] == "NamingSkipped"]
    if len(named) < 8:
        raise Machinery("naming cases are vacuous: %d judged, %d skipped" % (len(named), len(skipped)))
    run.extra["registry_naming"] = {"cases": len(named), "skipped": [dict(ctor=x["ctor"], why=x["why"]) for x in skipped]}
    if skipped:
        run.assumptions.append("the address-based Datadog constructor was not exercised: " + skipped[0]["why"])
    rejects = validate_trace(run, "RegistryTrace", "Registry_trace.cfg", tp, len(rows))
    run.traces += len(named)
    run.events += len(rows)
    for rj in rejects:
        run.report("%s registry built with prefix %s: %s: expected %s, observed %s" % (
            rj["op"].get("ctor"), json.dumps(rj["op"].get("prefix")), rj["why"], json.dumps(rj["expected"]), json.dumps(rj["logged"])),
            {"case": rows[rj["line"] - 1], "reject": rj, "rerun": "bin/check C20"}, {"kind": rj["op"].get("ctor"), "op": "naming", "prefix": rj["op"].get("prefix")})
    # emission: in-flight sample at the admission decision and the limit gauge, through the Limiter contract
    def lim_rj(r, tr):
        e, g = r.get("expected") or {}, r.get("logged") or {}
        er, gr = e.get("res") or {}, g.get("res") or {}
        ep, gp = e.get("post") or {}, g.get("post") or {}
        if isinstance(er, dict) and isinstance(gr, dict) and er.get("inflight") != gr.get("inflight"):
            return {"kind": "default", "what": "inflight sample"}
        if isinstance(ep, dict) and isinstance(gp, dict) and ep.get("glimit") != gp.get("glimit"):
            return {"kind": "default", "what": "limit gauge"}
        return None
    limiter_pipeline(run, "C20", lambda m: {"kind": "default", "what": "emission"} if _res_field_differs(m, "inflight") else None, lim_rj, graphs=th)
    # the queue limiter's queue_size gauge against the callers actually blocked, in the real-time hand-off / give-up / arrival
    # races (the stable-state rejection "size" of WrapperTrace)
    gauge_rejects = []
    handoff_race(run, "C20", set(), gauge_rejects)
    seen = set()
    for rj in gauge_rejects:
        if rj["class"] == "backlog" and rj.get("p") == "size" and rj["_stack"] not in seen:
            seen.add(rj["_stack"])
            run.report("queue limiter (%s scenario %s): the queue_size gauge reports %s while %s callers are blocked" % (
                rj["_stack"], rj["trace"], (rj.get("obs") or {}).get("q"), sum(1 for v in ((rj.get("obs") or {}).get("procs") or {}).values() if v == "blocked")),
                {"reject": rj, "rerun": "bin/check C20"}, {"kind": "queue", "what": "queue_size gauge"})
    # partitioned strategies: a grant emits one in-flight sample tagged with the partition charged, valued at its count
    partition_pipeline(run, "C20", lambda kind, m: {"kind": kind, "what": "partition sample"}, graphs=th, samples=True)
    # free-running goroutines: the in-flight sample of every acquire is the count at its linearisation point
    gate_stress(run, "C20", 1800 if th else 480, check_n=True)
    # every processed sample of every limit algorithm emits one RTT, one in-flight and a drop increment iff drop (LimitTrace class metrics)
    limits_pipeline(run, "C20", {"metrics"}, aimd=False, vegas=False)
    run.assumptions += ["Start/Stop/Register calls are sequential (the poller is the only concurrent party); the TLC model additionally covers two concurrent callers",
                        "Stop is never issued at exactly a ticker instant by the drivers' contract (interval (t, t+d] inclusive is polled before the next call)",
                        "the per-sample emission of the limit algorithms (RTT / in-flight / drop counter) is checked by the limit-algorithm traces (C04/C16 machinery), see DESIGN"]


# ------------------------------------------------------------------------------ C14
def c14(run):
    th = run.tier == "thorough"
    r = run.tlc("GrpcMC", "Grpc_mc.cfg", workers=1, label="mc+gen:Grpc")
    if r.error or not r.ok:
        raise Machinery("TLC GrpcMC: %s %s\n%s" % (r.error, r.violation, r.raw[-3000:]))
    run.states += r.distinct
    run.transitions += r.generated
    cases = r.json_prints("CASE")
    if len(cases) != 10368:
        raise Machinery("GrpcMC enumerated %d cases, expected the full product of 10368" % len(cases))
    # two interceptors of the package chained (each gates on its own limiter): 1536 cases of the contract ChainG
    chain = r.json_prints("CHAIN")
    if len(chain) != 1536:
        raise Machinery("GrpcMC enumerated %d chained cases, expected 1536" % len(chain))
    slow = r.json_prints("SLOW")
    if len(slow) != 288:
        raise Machinery("GrpcMC enumerated %d slow cases, expected 288" % len(slow))
    cases = cases + chain + slow
    indir = os.path.join(run.scratch, "in")
    os.makedirs(indir, exist_ok=True)
    vlib.write_ndjson(os.path.join(indir, "grpc_cases.ndjson"), cases)
    out, _ = run.go("^TestGrpcCases$", env={"VERIF_IN": indir})
    rep = json.load(open(os.path.join(out, "grpc_cases.json")))
    run.extra["cases_replayed"] = rep["cases"]
    run.exhaustive = True
    run.traces += rep["cases"]
    run.sample({"case": cases[0]})
    for m in rep["mismatches"] or []:
        run.report("gRPC %s%s (grant=%s err=%s classifier=%s, custom=%s): observed %s, the contract fixes %s" % (
            m["op"]["kind"], " behind an outer interceptor (outer grant=%s)" % m["op"]["ogrant"] if "ogrant" in m["op"] else "",
            m["op"]["grant"], m["op"]["err"], m["op"]["cls"], m["cfg"], json.dumps(m["got"]), json.dumps(m["expected"])),
            {"case": m, "rerun": "bin/check C14"}, {"kind": m["op"]["kind"], "grant": m["op"]["grant"]})
    n = 20000 if th else 3000
    out, _ = run.go("^TestGrpcRandom$", env={"VERIF_N": n})
    tp = os.path.join(out, "grpc_trace.ndjson")
    rejects, total = validate_sharded(run, "GrpcTrace", "Grpc_trace.cfg", tp)
    run.events += total
    run.traces += total
    seen = set()
    for rj in rejects:
        key = (rj["op"]["kind"], rj["op"]["grant"], rj["op"]["err"], json.dumps(rj["cfg"], sort_keys=True))
        if key in seen:
            continue
        seen.add(key)
        run.report("gRPC %s: recorded operation rejected by the contract: expected %s, logged %s" % (rj["op"]["kind"], json.dumps(rj["expected"]), json.dumps(rj["logged"])),
                   {"reject": rj, "rerun": "VERIF_SEED=%d bin/check C14" % run.seed}, {"kind": rj["op"]["kind"], "grant": rj["op"]["grant"]})
    # design level: the stream wrapper with a receive and a send in flight (token in a local variable: exactly once;
    # token parked in a per-stream field: TLC finds the double / missing completion)
    gs = "CONSTANTS SharedSlot = %s\nSPECIFICATION Spec\nINVARIANTS AtMostOnce ExactlyOnce\nCHECK_DEADLOCK FALSE\n"
    run.mc("GrpcStream", "gs.cfg", cfg_text=gs % "FALSE", label="mc:GrpcStream/local-token")
    run.neg("GrpcStream", "gsn.cfg", cfg_text=gs % "TRUE", label="neg:GrpcStream/per-stream-slot")
    # full duplex: one RecvMsg and one SendMsg overlapping on the same wrapped stream, every order of entering and leaving
    # the transport; each operation's own observation must be the one the contract fixes for it alone
    out, _ = run.go("^TestGrpcDuplex$")
    tp = os.path.join(out, "grpc_duplex_trace.ndjson")
    rejects, total = validate_sharded(run, "GrpcTrace", "Grpc_trace.cfg", tp)
    if total < 1000:
        raise Machinery("full-duplex scenarios are vacuous: %d operations" % total)
    run.events += total
    run.traces += total // 2
    run.extra["duplex_operations"] = total
    rows = None
    seen = set()
    for rj in rejects:
        if rows is None:
            rows = {x["trace"]: x for x in vlib.read_ndjson(tp)}
        row = rows.get(rj["trace"], {})
        key = (rj["op"]["kind"], row.get("pattern"), rj["op"]["grant"])
        if key in seen:
            continue
        seen.add(key)
        run.report("gRPC %s overlapping a %s on the same stream (%s): expected %s, logged %s" % (
            rj["op"]["kind"], "send" if rj["op"]["kind"] == "recv" else "recv", row.get("pattern"), json.dumps(rj["expected"]), json.dumps(rj["logged"])),
            {"reject": rj, "scenario": row, "rerun": "bin/check C14"}, {"kind": rj["op"]["kind"] + "-duplex", "grant": rj["op"]["grant"], "pattern": row.get("pattern")})
    # sequences of RecvMsg / SendMsg on ONE wrapped stream, with nil / io.EOF / plain / status errors and refusals in between
    out, _ = run.go("^TestGrpcStreamSequence$", env={"VERIF_N": 1500 if th else 200})
    info = json.load(open(os.path.join(out, "grpc_seq.json")))
    run.extra["stream_sequences"] = info
    tp = os.path.join(out, "grpc_seq_trace.ndjson")
    rejects, total = validate_sharded(run, "GrpcTrace", "Grpc_trace.cfg", tp)
    run.events += total
    run.traces += info["streams"]
    rows = None
    seen = set()
    for rj in rejects:
        if rows is None:
            rows = {x["trace"]: x for x in vlib.read_ndjson(tp)}
        row = rows.get(rj["trace"], {})
        key = (rj["op"]["kind"], rj["op"]["grant"], row.get("inner"))
        if key in seen:
            continue
        seen.add(key)
        hist = [x for x in rows.values() if x.get("stream") == row.get("stream") and x.get("pos", 0) <= row.get("pos", 0)]
        run.report("gRPC %s, operation %s of a sequence on one stream (earlier results: %s): expected %s, logged %s" % (
            rj["op"]["kind"], row.get("pos"), [x.get("inner") for x in hist[:-1]], json.dumps(rj["expected"]), json.dumps(rj["logged"])),
            {"reject": rj, "sequence": hist, "rerun": "VERIF_SEED=%d bin/check C14" % run.seed}, {"kind": rj["op"]["kind"] + "-sequence", "grant": rj["op"]["grant"]})
    run.assumptions += ["recording limiter / listener doubles and fake handler, invoker and ServerStream (no network); interceptors are stateless, so sequences are independent operations",
                        "stream operations: RecvMsg consults the server-side stream classifier and SendMsg the client-side one, as the options are named"]


# ------------------------------------------------------------------------------ C01
def conc_cfg(direct, ll, sl, incr="add", gauge="add"):
    return ('CONSTANTS P = {"p1", "p2", "p3"} Limits = {0, 1, 2, 3} Limit0 = 1 Direct = %s LimiterLock = %s StrategyLock = %s Incr = "%s" Gauge = "%s" Rounds = 2\n'
            'SPECIFICATION Spec\nINVARIANTS NeverOver RefusedAtLimit NonNegative GaugeExact\nPROPERTY GrantHadRoom\nCHECK_DEADLOCK FALSE\n') % (direct, ll, sl, incr, gauge)


GATE_CFG = "CONSTANT CheckN = %s\nINIT Init\nNEXT Next\nCONSTRAINT Mark\nINVARIANT NeverOver\nPOSTCONDITION Report\nCHECK_DEADLOCK FALSE\n"


def gate_stress(run, prop, n, check_n=False, test="^TestGateStress$", fname="gate_trace.ndjson", what="stress"):
    """Free-running goroutines on real limiters; TLC searches each recorded history for a linearisation.
    check_n: the in-flight sample emitted for each acquire must moreover be the count at its linearisation point (C20);
    a history that has no linearisation even without that requirement is the gate's business (C01) and is not reported."""
    out, _ = run.go(test, env={"VERIF_N": n}, timeout=900)
    tp = os.path.join(out, fname)
    rows = vlib.read_ndjson(tp)
    stats = {"histories": n, "events": len(rows), "acquires": 0, "refusals": 0, "completions": 0, "limit_changes": 0, "samples_seen": 0}
    # the sequential probes after a phase of limit updates racing completions carry no in-flight samples
    probes = {x["trace"] for x in rows if x["t"] == "reset" and str(x.get("kind", "")).endswith("/after-updates")}
    unsampled = 0
    for x in rows:
        if x["t"] == "b":
            stats[{"acq": "acquires", "rel": "completions", "set": "limit_changes"}[x["kind"]]] += 1
            if x["kind"] == "acq" and x["trace"] in probes:
                unsampled += 1
        if x["t"] == "e" and not x["ok"]:
            stats["refusals"] += 1
        if x["t"] == "e" and x.get("n", -1) >= 0:
            stats["samples_seen"] += 1
    stats["probe_histories_after_concurrent_limit_updates"] = len(probes)
    run.extra[what] = stats
    if what == "stress" and (stats["refusals"] == 0 or stats["limit_changes"] == 0 or (check_n and stats["samples_seen"] < stats["acquires"] - unsampled)):
        raise Machinery("stress histories are vacuous: %s" % stats)
    if stats["acquires"] < 100:
        raise Machinery("%s histories are vacuous: %s" % (what, stats))
    run.sample({"stress_history_excerpt": rows[:6]})
    remaining = rows

    def validate(lines, path, checkn, label):
        vlib.write_ndjson(path, lines)
        r = run.tlc("GateTrace", "gate_%s.cfg" % ("n" if checkn else "g"), cfg_text=GATE_CFG % ("TRUE" if checkn else "FALSE"), workers=1,
                    env={"VERIF_TRACE": path}, label=label, jvm="-Xmx6g", timeout=1200)
        if r.error or r.violation not in (None, "invariant NeverOver"):
            raise Machinery("GateTrace failed to run: %s %s\n%s" % (r.error, r.violation, r.raw[-3000:]))
        marks = [int(x) for x in r.prints.get("MARK", [])]
        return r, (max(marks) if marks else 0)

    # TLC handles behaviours of fewer than 65 536 states (about three per logged line): validate in chunks of whole histories
    chunks, cur = [], []
    for x in rows:
        if x["t"] == "reset" and len(cur) > 12000:
            chunks.append(cur)
            cur = []
        cur.append(x)
    chunks.append(cur)
    if len(chunks) > 1:
        results = [None] * len(chunks)

        def work(i):
            results[i] = validate(chunks[i], os.path.join(out, "gate_chunk%d.ndjson" % i), check_n, "val:GateTrace[chunk %d, %d lines]" % (i, len(chunks[i])))
        threads = []
        for i in range(len(chunks)):
            t = threading.Thread(target=work, args=(i,))
            t.start()
            threads.append(t)
            if len(threads) >= 6:
                threads.pop(0).join()
        for t in threads:
            t.join()
        remaining = []
        for i, (r, mark) in enumerate(results):
            if r.ok and mark == len(chunks[i]):
                run.events += mark
                run.traces += len([x for x in chunks[i] if x["t"] == "reset"])
            else:
                remaining += chunks[i]   # isolated below, history by history
        if not remaining:
            return
        if len(remaining) > 20000:
            remaining = remaining[:20000]
            while remaining and remaining[-1]["t"] != "reset":
                remaining.pop()
            remaining.pop()
    for attempt in range(6):
        r, mark = validate(remaining, os.path.join(out, "gate_%d.ndjson" % attempt), check_n, "val:GateTrace[%d lines]" % len(remaining))
        run.events += mark
        if r.ok and mark == len(remaining):
            run.traces += len([x for x in remaining if x["t"] == "reset"])
            return
        # the history containing line mark+1 has no linearisation (or violates NeverOver)
        bad = remaining[min(mark, len(remaining) - 1)]["trace"]
        hist = [x for x in remaining if x["trace"] == bad]
        kind = hist[0].get("kind")
        consumed = sum(1 for x in remaining[:mark] if x["trace"] == bad)
        if check_n:
            r2, mark2 = validate(hist, os.path.join(out, "gate_%d_plain.ndjson" % attempt), False, "val:GateTrace[history %s without samples]" % bad)
            if r2.ok and mark2 == len(hist):
                run.report("%s: concurrent history %d is linearisable as an atomic gate, but not with the in-flight samples it emitted: some sample is not the in-flight count at its call's admission decision (TLC consumed %d of its events)" % (
                    kind, bad, consumed), {"history": hist, "rerun": "VERIF_SEED=%d bin/check %s --tier %s" % (run.seed, prop, run.tier)}, {"class": "sample", "kind": kind})
            else:
                run.extra.setdefault("not_linearisable_even_without_samples", []).append(bad)
        else:
            run.report("%s: recorded concurrent history %d is not linearisable as an atomic gate (TLC consumed %d of its events%s)" % (
                kind, bad, consumed, ", NeverOver violated" if r.violation else ""),
                {"history": hist, "rerun": "VERIF_SEED=%d bin/check %s --tier %s" % (run.seed, prop, run.tier)}, {"class": "gate", "kind": kind})
        remaining = [x for x in remaining if x["trace"] != bad]
    run.extra["stress_note"] = "stopped after 6 non-linearisable histories"


def c01(run):
    th = run.tier == "thorough"
    for name, c in {"simple": ("FALSE", "TRUE", "FALSE"), "precise": ("FALSE", "TRUE", "TRUE"), "precise-direct": ("TRUE", "TRUE", "TRUE")}.items():
        run.mc("DefaultLimiterConc", name + ".cfg", cfg_text=conc_cfg(*c), label="mc:DefaultLimiterConc/" + name)
    run.neg("DefaultLimiterConc", "neg1.cfg", cfg_text=conc_cfg("FALSE", "FALSE", "FALSE"), label="neg:limiter-lock-removed")
    run.neg("DefaultLimiterConc", "neg2.cfg", cfg_text=conc_cfg("TRUE", "TRUE", "FALSE"), label="neg:precise-mutex-removed")
    run.neg("DefaultLimiterConc", "neg3.cfg", cfg_text=conc_cfg("FALSE", "TRUE", "FALSE", incr="cas"), label="neg:compare-and-swap-without-retry")
    # attack schedule of the weakened model, realised in real time on the real code
    all_rejects = []
    out, _ = run.go("^TestGateAttack$", timeout=300)
    att = json.load(open(os.path.join(out, "attack.json")))
    run.extra["attack"] = att
    tp = os.path.join(out, "attack_trace.ndjson")
    rejects, total = validate_sharded(run, "WrapperTrace", "Wrapper_trace.cfg", tp)
    run.events += total
    run.traces += att["scenarios"]
    handle_rejects(run, "C01", rejects, tp, {"gate", "early", "conserve"}, "attack", all_rejects)
    completion_overlap(run, "C01", {"gate", "early"})
    # gate-serialised schedules of wrappers over the real DefaultLimiter (every delegate attempt checked)
    wrapper_pipeline(run, "C01", ["b3l2", "q2"] + (["q3", "b4", "q4t"] if th else []), [], {"gate"}, random_n=1500 if th else 200)
    # free-running concurrency, linearisability
    gate_stress(run, "C01", 1500 if th else 150)
    # sequential histories with moving limits (every grant / refusal against busy < limit), all strategy kinds
    def seq_rj(r, tr):
        e, g = r.get("expected") or {}, r.get("logged") or {}
        er, gr = e.get("res") or {}, g.get("res") or {}
        if isinstance(er, dict) and isinstance(gr, dict) and er.get("ok") != gr.get("ok"):
            return {"kind": "default", "what": "grant decision"}
        # the gate's limit is the one the latest sample-driven update put in force: a limit that did not follow the
        # trajectory makes every later decision the wrong gate's
        ep, gp = (e.get("post") or {}), (g.get("post") or {})
        if isinstance(ep, dict) and isinstance(gp, dict) and ep.get("limit") != gp.get("limit"):
            return {"kind": "default", "what": "limit in force"}
        return None
    limiter_pipeline(run, "C01", lambda m: {"kind": "default", "what": "grant decision"} if _res_field_differs(m, "ok") else None, seq_rj, graphs=th)
    run.assumptions += ["the bounded real-time wait of the attack executor (30 ms quick, 200 ms thorough) can only miss a detection on an overloaded machine, never raise an alarm",
                        "stress histories depend on the Go scheduler; they are a sample, the attack schedule is deterministic"]


def completion_overlap(run, prop, classes):
    """Real time: an Acquire overlapping a completion of another token of the same DefaultLimiter (completions do not take the
    limiter's lock): never refused with room (C01), gauge and strategy count back to the tokens out once quiet (C02)."""
    out, _ = run.go("^TestCompletionOverlap$", timeout=300)
    info = json.load(open(os.path.join(out, "overlap.json")))
    run.extra["completion_overlap_scenarios"] = info["scenarios"]
    tp = os.path.join(out, "overlap_trace.ndjson")
    rejects, total = validate_sharded(run, "WrapperTrace", "Wrapper_trace.cfg", tp)
    run.events += total
    run.traces += info["scenarios"]
    handle_rejects(run, prop, rejects, tp, classes, "completion-overlap", [])


def c02(run):
    th = run.tier == "thorough"
    wrapper_pipeline(run, "C02", ["b3l2", "q3s", "d2", "b2c"] + (["q3", "q3l", "q4t", "b3p", "d3"] if th else []), [], {"conserve"}, random_n=2000 if th else 300, handoff=True)
    completion_overlap(run, "C02", {"conserve"})
    # design level: the limiter's gauge next to the strategy count, completions in two steps outside the limiter mutex
    run.mc("DefaultLimiterConc", "gauge.cfg", cfg_text=conc_cfg("FALSE", "TRUE", "FALSE"), label="mc:DefaultLimiterConc/gauge")
    run.neg("DefaultLimiterConc", "gauge_neg.cfg", cfg_text=conc_cfg("FALSE", "TRUE", "FALSE", gauge="store"), label="neg:gauge-published-by-overwrite")

    def lim_mm(m):
        return {"kind": "default", "what": "counts"}

    def lim_rj(r, tr):
        e, g = r.get("expected") or {}, r.get("logged") or {}
        ep, gp = (e.get("post") or e), (g.get("post") or g)
        if isinstance(ep, dict) and isinstance(gp, dict) and (ep.get("gauge") != gp.get("gauge") or ep.get("busy") != gp.get("busy")):
            return {"kind": "default", "what": "counts"}
        er, gr = e.get("res") or {}, g.get("res") or {}
        if isinstance(er, dict) and isinstance(gr, dict) and er.get("ok") != gr.get("ok"):
            return {"kind": "default", "what": "grant"}
        return None
    limiter_pipeline(run, "C02", lim_mm, lim_rj, graphs=th)

    def part_cl(kind, m):
        return {"kind": kind, "what": "bins"}
    partition_pipeline(run, "C02", part_cl, graphs=th)


CHECKS = {
    "C01": c01,
    "C02": c02,
    "C03": c03,
    "C04": c04,
    "C05": c05,
    "C06": c06,
    "C07": c07,
    "C08": c08,
    "C15": c15,
    "C16": c16,
    "C18": c18,
    "C09": c09,
    "C10": c10,
    "C14": c14,
    "C20": c20,
    "C11": c11,
    "C12": c12,
    "C13": c13,
    "C19": c19,
}
