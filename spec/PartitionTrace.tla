------------------------------ MODULE PartitionTrace ------------------------------
(* Trace validation (code -> model) for spec/Partition.tla.  The ndjson log holds many       *)
(* scenarios; each starts with a Reset line carrying its configuration and the state read    *)
(* back from the freshly constructed strategy, followed by one line per call with the        *)
(* observed result and the observed post-state.  The contract is deterministic, so a line    *)
(* is accepted iff Apply gives exactly the logged result and projection.  A rejected line    *)
(* prints a REJECT record and the rest of that scenario is skipped (the next Reset resumes   *)
(* checking), so one TLC run classifies every scenario.                                      *)
EXTENDS Partition, TLC, Json, IOUtils

Log == ndJsonDeserialize(IOEnv.VERIF_TRACE)

VARIABLES l, ok, cfg, s
vars == <<l, ok, cfg, s>>

NoCfg == [kind |-> "none"]

Init == l = 1 /\ ok = FALSE /\ cfg = NoCfg /\ s = [limit |-> 0]

Reject(e, why, exp) ==
  PrintT(<<"REJECT", ToJson([trace |-> e.trace, line |-> l, why |-> why, expected |-> exp,
                             logged |-> [res |-> e.res, post |-> e.post], op |-> e.op])>>)

Step ==
  /\ l <= Len(Log)
  /\ l' = l + 1
  /\ LET e == Log[l] IN
     IF e.ev = "Reset"
     THEN LET s0 == InitState(e.cfg) IN
          /\ cfg' = e.cfg
          /\ s' = s0
          /\ IF Obs(e.cfg, s0) = e.post THEN ok' = TRUE
             ELSE /\ ok' = FALSE
                  /\ PrintT(<<"REJECT", ToJson([trace |-> e.trace, line |-> l, why |-> "construction",
                                                expected |-> Obs(e.cfg, s0), logged |-> e.post])>>)
     ELSE IF ~ok THEN UNCHANGED <<ok, cfg, s>>
     ELSE IF ~OpEnabled(cfg, s, e.op)
          THEN /\ Reject(e, "operation not enabled in the contract state", Obs(cfg, s))
               /\ ok' = FALSE /\ UNCHANGED <<cfg, s>>
     ELSE LET r == Apply(cfg, s, e.op) IN
          IF /\ r.res = e.res /\ Obs(cfg, r.st) = e.post
             /\ BinsSumToTotal(cfg, r.st) /\ SharesCurrent(cfg, r.st) /\ NonNegative(cfg, r.st)
          THEN s' = r.st /\ UNCHANGED <<ok, cfg>>
          ELSE /\ Reject(e, "result or post-state differs from the contract", [res |-> r.res, post |-> Obs(cfg, r.st)])
               /\ ok' = FALSE /\ UNCHANGED <<cfg, s>>

Done == l > Len(Log) /\ UNCHANGED vars
Next == Step \/ Done
Consumed == (l > Len(Log)) => PrintT(<<"CONSUMED", l - 1>>)
=================================================================================
