#!/usr/bin/env python3
"""Copies confirmed seeded changes from their scratch worktrees into /verif/seeded/<id>/ (patch.diff, the
demonstration, notes.md) and writes meta.json. The table below is maintained by hand from the sub-agents'
reports and from what was confirmed (bin/seedconfirm) and run (bin/seedcheck)."""
import glob
import json
import os
import shutil
import sys

SEEDS = {
    "C01-precise-saturated-flag": dict(wt="/tmp/mut/C01", prop="C01", demo_pkg="limiter", run="go test -vet=off -count=1 -run TestC01Demo ./limiter/",
        what="PreciseStrategy gets a lock-free 'saturated' fast path; SetLimit does not refresh the flag",
        needs="a limit increase while the strategy is saturated and no release before the next Acquire (directly: fill, SetLimit higher, TryAcquire; through the limiter: a down-then-up limit trajectory with more tokens out than the lowered limit)"),
    "C02-giveup-check-then-lock": dict(wt="/tmp/mut/C02", prop="C02", demo_pkg="limiter", run="go test -vet=off -count=1 -run TestDemoC02 ./limiter/",
        what="QueueBlockingLimiter.giveUp checks the hand-off channel before taking the limiter mutex instead of after evicting under it",
        needs="a waiter gives up (timeout or cancellation) while a completion's unblock() holds the mutex between peeking that waiter and handing the listener over: the token is orphaned"),
    "C03-swapdelete": dict(wt="/tmp/mut/C03", prop="C03", demo_pkg="strategy", run="go test -vet=off -count=1 -run C03Demo ./strategy/",
        what="RemovePartitionsMatching removes in place with swap-delete, reordering the surviving predicate partitions",
        needs=">= 3 partitions with overlapping predicates, removal of a non-last one, then a request matching two survivors (charged to the wrong bin; refused though its first-registered partition is under its share)"),
    "C04-log10-round": dict(wt="/tmp/mut/C04", prop="C04", demo_pkg="limit", run="go test -vet=off -count=1 -run TestC04Demo ./limit/",
        what="Log10RootFloatFunction rounds the fractional limit to index its table while the range guard checks the unrounded value",
        needs="Vegas with smoothing < 1, maximum >= 1000 and an estimate in [999.5, 1000): index out of range panic on every later sample"),
    "C05-setlimit-outside-lock": dict(wt="/tmp/mut/C05", prop="C05", demo_pkg="limiter", run="go test -vet=off -count=1 -run TestC05EnforcementFollowsEstimate ./limiter/",
        what="updateLimit calls strategy.SetLimit after releasing the limiter lock",
        needs="two window-closing completions: A delayed before SetLimit(e1), B closes a further window and installs e2, A's stale e1 lands last"),
    "C06-vegas-skip-store": dict(wt="/tmp/mut/C06", prop="C06", demo_pkg="limit", run="go test -vet=off -count=1 -run TestC06 ./limit/",
        what="Vegas returns early (without storing the float estimate) when the integer estimate is unchanged",
        needs="smoothing < 1 and at least two consecutive drops: sub-integer decreases are discarded, the estimate sticks one below its start and never reaches the floor"),
    "C07-log10-table-zero": dict(wt="/tmp/mut/C07", prop="C07", demo_pkg="limit", run="go test -vet=off -count=1 -run TestC07Demo ./limit/",
        what="the log10 lookup table loses its floor of 1 for entries 1..9",
        needs="a Vegas estimate below 10 (after drops or a small initial limit): alpha, beta, threshold and the steps are all 0, the estimate is frozen"),
    "C08-gradient-tolerance": dict(wt="/tmp/mut/C08", prop="C08", demo_pkg="limit", run="go test -vet=off -count=1 -run TestC08 ./limit/",
        what="Gradient's slope test truncates rttTolerance to an integer and the upper clamp is dropped",
        needs="a fractional tolerance (1.5, 2.5) and an RTT pair straddling floor(tol) x baseline: the higher RTT gets a gradient above 1"),
    "C09-stale-nextupdate": dict(wt="/tmp/mut/C09", prop="C09", demo_pkg="limiter", run="go test -vet=off -count=1 -run TestDemoC09 ./limiter/",
        what="updateLimit's under-lock double check reads the listener's private copy of nextUpdateTime",
        needs="a token acquired before a window close completing inside the following period when the new window is already ready: a second update within one period"),
    "C10-skip-broadcast": dict(wt="/tmp/mut/C10", prop="C10", demo_pkg="limiter", run="go test -vet=off -count=1 -tags c10demo -run TestC10Demo ./limiter/",
        what="DelegateListener skips the Broadcast when a 'blocked' counter is 0; callers are counted only while they sleep",
        needs="a release that lands between the caller's re-check and its increment of the counter"),
    "C11-requeue-front": dict(wt="/tmp/mut/C11", prop="C11", demo_pkg="limiter", run="go test -vet=off -count=1 -run TestMutantC11 ./limiter/",
        what="unblock() pops the waiter before asking the delegate and re-queues it at the newest position when the delegate refuses",
        needs="a FIFO backlog of >= 2 and a completion whose unblock finds the delegate refusing (an arrival took the freed token, or the limit shrank)"),
    "C12-atomic-size": dict(wt="/tmp/mut/C12", prop="C12", demo_pkg="limiter", run="go test -vet=off -count=1 -run TestC12Demo ./limiter/",
        what="the backlog length becomes an atomic counter decremented by the (idempotent) eviction closure",
        needs="a waiter giving up while unblock() is handing over to it: evicted twice, the counter drifts below the list length (queue size wrong, backlog over its maximum, or wrapped)"),
    "C13-stale-budget": dict(wt="/tmp/mut/C13", prop="C13", demo_pkg="limiter", run="go1.26.8 test -vet=off -count=1 -run TestC13Demo ./limiter/",
        what="the deadline limiter computes its wait budget once on entry and loops on a signal",
        needs="a blocked caller woken by a release before the deadline that loses the token: it blocks again for the full original budget, past its deadline"),
    "C14-le-memo": dict(wt="/tmp/mut/C14", prop="C14", demo_pkg="grpc", run="go test -vet=off -count=1 -run TestC14Demo ./grpc/",
        what="the limit-exceeded response is memoised unless a flag is cleared; the stream options do not clear it",
        needs="a custom stream limit-exceeded classifier whose code depends on the call, and at least two refusals"),
    "C15-vegas-probe-min": dict(wt="/tmp/mut/C15", prop="C15", demo_pkg="limit", run="go test -vet=off -count=1 -run TestC15 ./limit/",
        what="the Vegas probe calls MinimumMeasurement.Update (a min) instead of replacing the measurement",
        needs="a baseline set at a low RTT, then an RTT step up that persists across a probe: the obsolete low baseline survives every probe"),
    "C16-aimd-notify-unlocked": dict(wt="/tmp/mut/C16", prop="C16", demo_pkg="limit", run="go test -vet=off -count=1 -run TestC16 ./limit/",
        what="AIMD notifies its listeners after releasing its lock",
        needs="two concurrent samples that both change the limit: the notifications can be delivered in the opposite order of the updates"),
    "C18-window-drop-fastpath": dict(wt="/tmp/mut/C18", prop="C18", demo_pkg="measurements", run="go test -vet=off -count=1 -run TestC18 ./measurements/",
        what="AddDroppedSample returns the receiver unchanged when the window already has a drop",
        needs="two drops in one window, the later one at a larger in-flight count, and no later success at least as large"),
    "C19-coalesced-unblock": dict(wt="/tmp/mut/C19", prop="C19", demo_pkg="patterns/pool", run="go test -vet=off -count=1 -run TestC19Demo ./patterns/pool/",
        what="unblock() loops under the mutex and is coalesced through an atomic 'draining' flag cleared after the mutex is released",
        needs="limit >= 2, two queued callers, and a second completion landing between the draining completion's last refused attempt and its flag reset"),
    "C20-stop-no-wait": dict(wt="/tmp/mut/C20", prop="C20", demo_pkg="metric_registry/gometrics", run="go test -vet=off -count=1 -run TestDemoC20 ./metric_registry/...",
        what="the registries drop the WaitGroup: Stop only puts a token into the (buffered) stopper channel",
        needs="Stop called while a poll is in progress (or with a tick due): gauges are still polled and forwarded after Stop has returned"),
    # ---- round 2 (a second set of fresh sub-agents, asked for a mechanism / clause different from round 1) ----
    "C01r2-acquire-rlock": dict(wt="/tmp/mut2/C01", prop="C01", demo_pkg="limiter", run="go test -vet=off -count=1 -tags verif -run TestMutantC01 ./limiter/",
        what="DefaultLimiter.Acquire takes the read lock, so the strategy's check and increment are no longer one critical section for a simple strategy",
        needs="two Acquire calls between the strategy's check and its increment (the verif gate simple.afterCheck, or a loaded scheduler)"),
    "C02r2-release-by-name": dict(wt="/tmp/mut2/C02", prop="C02", demo_pkg="strategy", run="go test -vet=off -count=1 -run TestC02Mutant ./strategy/",
        what="the lookup strategy's release closure re-resolves the bin by name at release time instead of capturing the bin it charged",
        needs="a partition replaced (AddPartition on an existing name) or removed while one of its tokens is out"),
    "C03r2-release-by-name": dict(wt="/tmp/mut2/C03", prop="C03", demo_pkg="strategy", run="go test -vet=off -count=1 -run TestC03Demo ./strategy/",
        what="same family as C02r2, produced independently: release resolves the key again (unknown bin / re-added bin credited or debited wrongly)",
        needs="a token released after its key was removed, re-added, or registered for the first time"),
    "C04r2-probe-drops-minimum": dict(wt="/tmp/mut2/C04", prop="C04", demo_pkg="limit", run="go test -vet=off -count=1 -run TestC04Demo ./limit/",
        what="the Gradient probe resets the estimate to max(queueSize, estimate/2), dropping the configured minimum",
        needs="a probe firing while estimate/2 and the queue allowance are both below the minimum"),
    "C05r2-add-unchanged-shortcut": dict(wt="/tmp/mut2/C05", prop="C05", demo_pkg="limiter", run="go test -vet=off -count=1 -run TestC05Mutant ./limiter/",
        what="AddPartition goes through an applyLimit helper that returns early when the total limit is unchanged",
        needs="a partition added after the first SetLimit: its bin keeps the limit it was built with"),
    "C06r2-stale-queue-allowance": dict(wt="/tmp/mut2/C06", prop="C06", demo_pkg="limit", run="go test -vet=off -count=1 -run TestC06Gradient ./limit/",
        what="Gradient caches queueSizeFunc(limit) and refreshes it only when the integer limit changes through the normal path; the probe branch bypasses the refresh",
        needs="a non-constant queue function, a probe at a large estimate, then drops: pinned at the stale allowance, never reaching the floor"),
    "C07r2-aimd-check-then-act": dict(wt="/tmp/mut2/C07", prop="C07", demo_pkg="limit", run="go test -vet=off -count=1 -run TestC07Mutant ./limit/",
        what="AIMD decides 'saturated' under the read lock, emits metrics unlocked, then applies the increment under the write lock without re-checking",
        needs="two overlapping OnSample calls at in-flight = limit: both increments land (12 instead of 11)"),
    "C08r2-vegas-stale-completion": dict(wt="/tmp/mut2/C08", prop="C08", demo_pkg="limit", run="go test -vet=off -count=1 -run TestC08Vegas ./limit/",
        what="Vegas ignores a sample whose startTime+rtt is before the completion time of the sample the estimate was last derived from",
        needs="non-zero start times and a final sample whose lower RTT completes before, and higher RTT after, that moment, the higher one still in the increase zone"),
    "C09r2-first-sample-fastpath": dict(wt="/tmp/mut2/C09", prop="C09", demo_pkg="limiter", run="go test -vet=off -count=1 -run TestC09Demo ./limiter/",
        what="ImmutableSampleWindow.AddSample builds a fresh window when sampleCount == 0, erasing drops (and their in-flight) recorded before the first success",
        needs="a drop that opens a window followed by a success in the same window"),
    "C10r2-dead-head-stops-handoff": dict(wt="/tmp/mut2/C10", prop="C10", demo_pkg="limiter", run="go test -vet=off -count=1 -run TestC10MutantDemo ./limiter/",
        what="unblock() evicts a head-of-line waiter whose context is done and returns without serving the next one",
        needs="two queued callers, the next in line cancelled (BacklogEvictDoneCtx off, or cancellation racing the release), then a completion"),
    "C11r2-default-size-fallthrough": dict(wt="/tmp/mut2/C11", prop="C11", demo_pkg="limiter", run="go test -vet=off -count=1 -run TestMutantC11 ./limiter/ ./patterns/pool/",
        what="ApplyDefaults becomes a switch whose backlog-size case falls through into the ordering default: FIFO + default size silently becomes LIFO",
        needs="a FIFO limiter or pool built with MaxBacklogSize <= 0"),
    "C12r2-tryacquire-rlock": dict(wt="/tmp/mut2/C12", prop="C12", demo_pkg="limiter", run="go test -vet=off -count=1 -run TestDemoBacklogBound ./limiter/",
        what="the queue limiter's attempt + length check + push runs under the read lock",
        needs="arrivals racing at a backlog one below its maximum: all pass the length check before any pushes"),
    "C13r2-skip-ctx-done": dict(wt="/tmp/mut2/C13", prop="C13", demo_pkg="limiter", run="go1.26.8 test -vet=off -count=1 -run TestDemoC13 ./limiter/",
        what="the queue limiter does not select on ctx.Done() when the context's deadline is not earlier than the backlog timeout",
        needs="a context with a far deadline that is cancelled explicitly while queued (BacklogEvictDoneCtx on)"),
    "C14r2-per-stream-token-slot": dict(wt="/tmp/mut2/C14", prop="C14", demo_pkg="grpc", run="go test -vet=off -count=1 -run TestC14Stream ./grpc/",
        what="RecvMsg/SendMsg are refactored into begin/end helpers that park the acquired listener in one field of the per-stream wrapper",
        needs="a RecvMsg and a SendMsg overlapping on the same stream (full duplex): one token is never completed or is completed with the other direction's classification"),
    "C15r2-no-reset-at-floor": dict(wt="/tmp/mut2/C15", prop="C15", demo_pkg="limit", run="go test -vet=off -count=1 -run TestC15Gradient ./limit/",
        what="the Gradient probe is skipped while the estimate sits at its floor",
        needs="an estimate pinned at the floor (sustained drops or a high RTT): the baseline is never refreshed within the bound"),
    "C16r2-windowed-cached-estimate": dict(wt="/tmp/mut2/C16", prop="C16", demo_pkg="limit", run="go test -vet=off -count=1 -run TestDemoC16 ./limit/",
        what="WindowedLimit.EstimatedLimit returns a value cached at construction and at each window close",
        needs="the delegate's estimate moving without the wrapper (explicit set, delegate sampled directly)"),
    "C18r2-expavg-update-unlocked": dict(wt="/tmp/mut2/C18", prop="C18", demo_pkg="measurements", run="go test -vet=off -count=1 -run TestDemoC18 ./measurements/",
        what="ExponentialAverageMeasurement.Update reads under the read lock, runs the operation unlocked, then stores",
        needs="an Add, Reset or Update overlapping the Update's operation: its effect is lost"),
    "C19r2-signal-not-broadcast": dict(wt="/tmp/mut2/C19", prop="C19", demo_pkg="patterns/pool", run="go test -vet=off -count=1 -run TestC19Demo ./patterns/pool/",
        what="DelegateListener.unblock wakes with Signal instead of Broadcast; stale helper goroutines absorb the wake-up",
        needs="a stale helper (re-check succeeded, cancelled or timed-out waiter) parked ahead of a live waiter at a release"),
    "C20r2-vegas-probe-no-metrics": dict(wt="/tmp/mut2/C20", prop="C20", demo_pkg="limit", run="go test -vet=off -count=1 -run TestC20Vegas ./limit/",
        what="Vegas calls commonSampler.Sample after the probe branch: probe samples emit no RTT / in-flight / drop metrics",
        needs="a sample that is a baseline probe"),
}


def main():
    results = json.load(open("/verif/seeded/results.json")) if os.path.exists("/verif/seeded/results.json") else {}
    for sid, m in SEEDS.items():
        d = os.path.join("/verif/seeded", sid)
        os.makedirs(d, exist_ok=True)
        wt = m["wt"]
        if os.path.isdir(wt):
            shutil.copy(os.path.join(wt, "mutant", "patch.diff"), os.path.join(d, "patch.diff"))
            for f in glob.glob(os.path.join(wt, "mutant", "*")) + glob.glob(os.path.join(wt, "mutant", "_demo", "*")):
                b = os.path.basename(f)
                if os.path.isfile(f) and (b.endswith(".go") or b == "notes.md"):
                    # demonstrations are stored with a .txt suffix so that no Go tool ever compiles them here
                    shutil.copy(f, os.path.join(d, b + (".txt" if b.endswith(".go") else "")))
        meta = {"id": sid, "breaks_property": m["prop"], "change": m["what"], "needs_to_manifest": m["needs"],
                "demonstration": {"copy_into": m["demo_pkg"], "run": m["run"], "files": sorted(x for x in os.listdir(d) if x.endswith(".go.txt"))},
                "confirmed": "bin/seedconfirm in a scratch worktree: existing suite passes with the change, demonstration fails with it and passes without it",
                "checks_run": results.get(sid, {})}
        with open(os.path.join(d, "meta.json"), "w") as f:
            json.dump(meta, f, indent=1)
    print("seeded:", len(SEEDS))


if __name__ == "__main__":
    main()
