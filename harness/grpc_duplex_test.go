package harness

import (
	"context"
	"path/filepath"
	"sync"
	"testing"
	"time"

	golangGrpc "google.golang.org/grpc"
	"google.golang.org/grpc/metadata"
	"google.golang.org/grpc/status"
)

// duplexStream is a ServerStream double whose RecvMsg and SendMsg stay inside the "transport" until the test
// lets them go, so that a receive and a send on one wrapped stream can overlap in a chosen order.
type duplexStream struct {
	ctx     context.Context
	mu      sync.Mutex
	ran     map[string]int
	errs    map[string]error
	entered map[string]chan struct{}
	release map[string]chan struct{}
}

func (f *duplexStream) SetHeader(metadata.MD) error  { return nil }
func (f *duplexStream) SendHeader(metadata.MD) error { return nil }
func (f *duplexStream) SetTrailer(metadata.MD)       {}
func (f *duplexStream) Context() context.Context     { return f.ctx }
func (f *duplexStream) transport(dir string) error {
	f.mu.Lock()
	f.ran[dir]++
	f.mu.Unlock()
	close(f.entered[dir])
	<-f.release[dir]
	return f.errs[dir]
}
func (f *duplexStream) SendMsg(m interface{}) error { return f.transport("send") }
func (f *duplexStream) RecvMsg(m interface{}) error { return f.transport("recv") }

// TestGrpcDuplex overlaps one RecvMsg and one SendMsg on the same wrapped stream (gRPC allows one goroutine to
// receive while another sends) in every order of entering and leaving the transport, for every grant / error /
// classification / option combination, and records each operation's own observation: the contract of
// spec/Grpc.tla is per operation, whatever else is in flight on the stream.
func TestGrpcDuplex(t *testing.T) {
	w := newNdWriter(t, filepath.Join(outDir(t), "grpc_duplex_trace.ndjson"))
	defer w.close()
	cls := []string{"success", "ignore", "dropped"}
	k := 0
	for _, cfg := range []grpcCfg{{false, false, 0}, {true, false, 1}, {false, true, 2}, {true, true, 2}} {
		for _, pattern := range []string{"recv-around-send", "send-around-recv", "both-recv-leaves-first", "both-send-leaves-first"} {
			for mask := 0; mask < 16; mask++ {
				for ci := 0; ci < 9; ci++ {
					ops := map[string]grpcOp{
						"recv": {Kind: "recv", Grant: mask&1 != 0, Err: mask&2 != 0, Cls: cls[ci%3], LeCode: "Aborted", Ctx: "live"},
						"send": {Kind: "send", Grant: mask&4 != 0, Err: mask&8 != 0, Cls: cls[ci/3], LeCode: "Unavailable", Ctx: "live"},
					}
					if !cfg.Custom && ci != 0 {
						continue // the classification is not consulted
					}
					st := newGrpcStack(cfg)
					rec := st.rec
					rec.grantBy = map[string]bool{"recv": ops["recv"].Grant, "send": ops["send"].Grant}
					fs := &duplexStream{ctx: context.Background(), ran: map[string]int{}, errs: map[string]error{},
						entered: map[string]chan struct{}{"recv": make(chan struct{}), "send": make(chan struct{})},
						release: map[string]chan struct{}{"recv": make(chan struct{}), "send": make(chan struct{})}}
					for d, op := range ops {
						if op.Err {
							fs.errs[d] = errInner
						}
					}
					rets := map[string]error{}
					done := map[string]chan struct{}{"recv": make(chan struct{}), "send": make(chan struct{})}
					first, second := "recv", "send"
					if pattern == "send-around-recv" || pattern == "both-send-leaves-first" {
						first, second = "send", "recv"
					}
					_ = st.ss(nil, fs, &golangGrpc.StreamServerInfo{FullMethod: "/svc/S"}, func(srv interface{}, ss golangGrpc.ServerStream) error {
						call := func(d string) {
							m := grpcMsg{le: ops[d].LeCode, cls: ops[d].Cls}
							var err error
							if d == "recv" {
								err = ss.RecvMsg(m)
							} else {
								err = ss.SendMsg(m)
							}
							rec.mu.Lock()
							rets[d] = err
							rec.mu.Unlock()
							close(done[d])
						}
						inOrOut := func(d string) {
							select {
							case <-fs.entered[d]:
							case <-done[d]:
							case <-time.After(5 * time.Second):
								t.Fatalf("%s neither entered the transport nor returned", d)
							}
						}
						go call(first)
						inOrOut(first)
						go call(second)
						inOrOut(second)
						if pattern == "recv-around-send" || pattern == "send-around-recv" {
							close(fs.release[second])
							<-done[second]
							close(fs.release[first])
							<-done[first]
						} else {
							close(fs.release[first])
							<-done[first]
							close(fs.release[second])
							<-done[second]
						}
						return nil
					})
					rec.mu.Lock()
					for _, d := range []string{"recv", "send"} {
						op := ops[d]
						asked, completed := []string{}, []J{}
						for _, a := range rec.asked {
							if a == d {
								asked = append(asked, a)
							}
						}
						for _, c := range rec.completed {
							if c["lim"] == d {
								completed = append(completed, c)
							}
						}
						code, same := "OK", true
						if ret := rets[d]; ret != nil {
							if ret == errInner {
								code = "inner"
							} else {
								code, same = status.Code(ret).String(), false
							}
						}
						w.write(J{"trace": k, "cfg": cfg, "op": op, "pattern": pattern, "overlaps": ops[map[string]string{"recv": "send", "send": "recv"}[d]],
							"obs": J{"asked": asked, "ran": fs.ran[d], "completed": completed, "code": code, "same": same}})
						k++
					}
					rec.mu.Unlock()
				}
			}
		}
	}
}
