------------------------------- MODULE RegistryTrace -------------------------------
(* Sequential contract of the bundled metric registries on a virtual clock, life-cycle and     *)
(* forwarding half of C20 (code -> model): Start / Stop / RegisterGauge / advance-time / sample *)
(* sequences.  Deterministic, total validator (REJECT records, CONSUMED count).                 *)
(*   start   idempotent; the poller's ticker starts at that instant                             *)
(*   stop    idempotent; returns; afterwards nothing is polled and no goroutine is left         *)
(*   adv d   every gauge registered is polled once per ticker instant in (t, t+d] iff started   *)
(*   reg id  registers a gauge once (a second registration of the id is ignored)                *)
(*   sample  a distribution / timing / count sample reaches the backend metric of that kind     *)
(*           under the prefixed name                                                            *)
EXTENDS Integers, Sequences, FiniteSets, TLC, Json, IOUtils

Log == ndJsonDeserialize(IOEnv.VERIF_TRACE)

VARIABLES l, ok, cfg, s
vars == <<l, ok, cfg, s>>

InitS == [started |-> FALSE, t |-> 0, t0 |-> 0, polls |-> <<>>, fw |-> <<>>]

TicksIn(c, st, d) ==   \* ticker instants t0 + j*freq (j >= 1) in (t, t+d]
  IF ~st.started THEN 0
  ELSE LET a == (st.t - st.t0) \div c.freq
           b == (st.t + d - st.t0) \div c.freq
       IN b - a

Has(f, k) == k \in DOMAIN f
Put(f, k, v) == [x \in DOMAIN f \cup {k} |-> IF x = k THEN v ELSE f[x]]

ApplyR(c, st, op) ==
  CASE op.op = "start" -> IF st.started THEN st ELSE [st EXCEPT !.started = TRUE, !.t0 = st.t]
    [] op.op = "stop" -> [st EXCEPT !.started = FALSE]
    [] op.op = "adv" -> LET k == TicksIn(c, st, op.d) IN
                        [st EXCEPT !.t = @ + op.d, !.polls = [g \in DOMAIN st.polls |-> st.polls[g] + k]]
    [] op.op = "reg" -> IF Has(st.polls, op.id) THEN st ELSE [st EXCEPT !.polls = Put(st.polls, op.id, 0)]
    [] op.op = "sample" -> LET key == op.kind \o ":" \o op.id IN
                           [st EXCEPT !.fw = Put(st.fw, key, (IF Has(st.fw, key) THEN st.fw[key] ELSE 0) + 1)]

(* Naming (all three constructors: go-metrics, Datadog by address, Datadog over a caller's client): a metric with id  *)
(* ID arrives at the backend under exactly one name, EffPrefix \o ID, where the requested prefix gets a trailing dot   *)
(* if it has none and the empty prefix selects the default "limiter.".  (TLA+ has no string functions: the prefixes   *)
(* of the driver's vocabulary that lack the dot are listed.)                                                         *)
Undotted == {"svc", "x", "lim"}
EffPrefix(p) == IF p = "" THEN "limiter." ELSE IF p \in Undotted THEN p \o "." ELSE p

ObsR(st) == [polls |-> st.polls, fw |-> st.fw, returned |-> TRUE]

Init == l = 1 /\ ok = FALSE /\ cfg = [kind |-> "none"] /\ s = InitS

Step ==
  /\ l <= Len(Log) /\ l' = l + 1
  /\ LET e == Log[l] IN
     IF e.ev = "Reset" THEN cfg' = e.cfg /\ s' = InitS /\ ok' = TRUE
     ELSE IF e.ev = "Naming"
     THEN /\ UNCHANGED <<ok, cfg, s>>
          /\ LET exp == [rtt |-> <<EffPrefix(e.prefix) \o "demo.rtt">>, limit |-> <<EffPrefix(e.prefix) \o "demo.limit">>] IN
             (e.rtt # exp.rtt \/ e.limit # exp.limit) =>
                PrintT(<<"REJECT", ToJson([trace |-> e.trace, line |-> l, why |-> "a metric did not reach the backend under the prefixed name (exactly once)",
                                           expected |-> exp, logged |-> [rtt |-> e.rtt, limit |-> e.limit], op |-> [op |-> "naming", ctor |-> e.ctor, prefix |-> e.prefix]])>>)
     ELSE IF e.ev = "NamingSkipped" THEN UNCHANGED <<ok, cfg, s>>
     ELSE IF e.ev = "Shared"
     THEN \* a backend metric that exists already (a second registry over the same backend and prefix, a metric registered by
          \* the application): one more sample forwarded under that name is one more sample in that backend metric
          /\ UNCHANGED <<ok, cfg, s>>
          /\ e.second # e.first + 1 =>
                PrintT(<<"REJECT", ToJson([trace |-> e.trace, line |-> l, why |-> "a sample forwarded under a name the backend already holds did not reach that backend metric",
                                           expected |-> [second |-> e.first + 1], logged |-> [first |-> e.first, second |-> e.second], op |-> [op |-> "shared", ctor |-> e.what, prefix |-> "svc"]])>>)
     ELSE IF e.ev = "Restart"
     THEN \* Start, a poll, Stop, the supplier's value changes, Start again: the backend metric shows the value polled in each period
          /\ UNCHANGED <<ok, cfg, s>>
          /\ (e.first # e.want.first \/ e.second # e.want.second) =>
                PrintT(<<"REJECT", ToJson([trace |-> e.trace, line |-> l, why |-> "a gauge polled after Stop and a second Start does not reach the backend metric (or not with the current value)",
                                           expected |-> e.want, logged |-> [first |-> e.first, second |-> e.second], op |-> [op |-> "restart", ctor |-> e.ctor, prefix |-> "svc"]])>>)
     ELSE IF e.ev = "StopRace"
     THEN \* Stop called while a poll is in progress (a gauge supplier has not returned yet): Stop terminates the poller,
          \* so it returns only once that poll is over, and no supplier is called after it has returned
          /\ UNCHANGED <<ok, cfg, s>>
          /\ (e.returnedwhilepolling \/ e.late > 0 \/ ~e.returnedafter) =>
                PrintT(<<"REJECT", ToJson([trace |-> e.trace, line |-> l, why |-> "Stop during a poll: it returned before the poller had terminated, or gauges were polled after it returned",
                                           expected |-> [returnedwhilepolling |-> FALSE, late |-> 0, returnedafter |-> TRUE], logged |-> e, op |-> [op |-> "stop-during-poll"]])>>)
     ELSE IF ~ok THEN UNCHANGED <<ok, cfg, s>>
     ELSE IF e.ev = "End"
     THEN /\ UNCHANGED <<cfg, s>>
          /\ IF e.leaked /\ ~s.started
             THEN /\ ok' = FALSE
                  /\ PrintT(<<"REJECT", ToJson([trace |-> e.trace, line |-> l, why |-> "a poller goroutine is left after the last Stop returned",
                                                expected |-> [leaked |-> FALSE], logged |-> [leaked |-> e.leaked], op |-> [op |-> "end"]])>>)
             ELSE UNCHANGED ok
     ELSE LET n == ApplyR(cfg, s, e.op) IN
          IF ObsR(n) = e.obs THEN s' = n /\ UNCHANGED <<ok, cfg>>
          ELSE /\ ok' = FALSE /\ UNCHANGED <<cfg, s>>
               /\ PrintT(<<"REJECT", ToJson([trace |-> e.trace, line |-> l, why |-> "observation differs from the contract",
                                             expected |-> ObsR(n), logged |-> e.obs, op |-> e.op])>>)
Done == l > Len(Log) /\ UNCHANGED vars
Next == Step \/ Done
Consumed == (l > Len(Log)) => PrintT(<<"CONSUMED", l - 1>>)
=================================================================================
