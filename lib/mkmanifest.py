#!/usr/bin/env python3
"""Regenerates /verif/MANIFEST.json from the table below (run after adding or removing a check)."""
import json
import os

VERIF = os.path.dirname(os.path.dirname(os.path.abspath(__file__)))

WRAP_NOTE = ("Exhaustive only within the stated constants (2-4 processes, limit 1-2, backlog <= 3, a few ticks); schedule points exist only at the gates "
             "(delegate Acquire entry/exit, delegate completion exit, queue.afterPush, block.childStart); testing/synctest's virtual clock (exact, urgent timers); "
             "TLC 1.8 and the CommunityModules Json module are trusted.")
WRAP_TECH = ("implementation-shaped TLA+ models (spec/Blocking.tla, spec/QueueBlocking.tla) model-checked by TLC against the contract invariants (and, for C10 / C13 / C19, temporal properties under fairness); every transition of "
             "their state graphs replayed on the real limiters through gates inside a synctest bubble; recorded executions validated by TLC against the contract spec/WrapperTrace.tla")

LIM_NOTE = ("Sequential histories for the deterministic contracts; exhaustive graph part uses window size 10 (the code's minimum), ages <= 2 ticks, one or two window "
            "closings, scripted estimate trajectories {1,3,0,2} / {2,2,1}; testing/synctest's virtual clock makes RTTs exact; TLC 1.8 + CommunityModules Json trusted.")

ALGO_NOTE = ("AIMD and (in the sub-domain RTT in {0,1,2,4,8,16} units, smoothing 1, default functions) Vegas are modelled exactly; Gradient and Gradient2 are floating-point: "
             "only order relations on exactly encoded values are checked. Configuration preconditions: Gradient initial >= queue allowance and minimum, tolerance >= 1.")

CHECKS = {
    "C01": dict(
        technique="implementation-shaped TLA+ model of the lock structure (spec/DefaultLimiterConc.tla) model-checked by TLC with lock-removal weakenings; the weakened model's attack schedule realised on the real code in real time through the verif hooks simple.afterCheck / precise.afterCheck; recorded free-running concurrent histories checked for linearisability against the atomic gate by TLC (spec/GateTrace.tla); gate-serialised wrapper schedules validated by spec/WrapperTrace.tla",
        text="TLC checks NeverOver / GrantHadRoom / RefusedAtLimit for all interleavings of 3 callers x 2 rounds with the limit moving over {1,2,3} (0 floored), for the simple and precise strategies through the limiter and the precise strategy used directly; removing the limiter lock or the precise mutex must (and does) violate NeverOver. The counterexample schedule - caller 1 parked between check and increment, caller 2 started - is forced on the real code: on this tree caller 2 never gets in. Free-running histories of 2-8 goroutines with sample-driven limit changes are accepted only if TLC finds linearisation points that make every grant/refusal the atomic gate's decision.",
        ref="5 C01", note="Bounded model (3 callers, 2 rounds, limits 1..3); the real-time attack waits 30/200 ms for the second caller (can miss, cannot accuse); stress histories are a scheduler-dependent sample."),
    "C02": dict(
        technique=WRAP_TECH + "; deterministic contracts spec/Limiter.tla and spec/Partition.tla validating recorded histories of the default limiter and the partitioned strategies",
        text="Conservation invariants at every layer: TLC checks Conservation / RefusedHoldsNothing on the wrapper models (hand-off racing with give-up, rejected hand-off, cancellation during the attempt); the contract WrapperTrace tracks every delegate token (held, or in transit to a waiter) through each recorded execution and rejects a return that holds the wrong number of tokens, a nil/non-nil listener mismatch, a double completion, and any step after which busy count or gauge differ from the tokens out; Limiter/Partition traces check gauge = busy = outstanding and bins = outstanding per bin after every call with all three outcomes.",
        ref="5 C02", note=WRAP_NOTE),
    "C05": dict(
        technique="TLA+ contracts spec/Limiter.tla (+ spec/Partition.tla for shares) explored exhaustively by TLC, every transition replayed on real DefaultLimiters with a scripted limit algorithm; recorded random histories over all four strategy kinds validated by TLC (LimiterTrace, PartitionTrace)",
        text="InvEnforce (strategy limit = max(1, estimate), every registered bin = Share(limit, fraction)) is checked by TLC in every state of the contract graph and after every call of the recorded histories, with estimate trajectories containing 0, negative and repeated values, for the simple, precise, lookup and predicate strategies; the Partition graph (SetLimit / add / remove) is replayed exhaustively for the share half. Concurrently: SetLimit overlapping AddPartition (sampled behind a start barrier, and forced by holding a partition's own mutex while both are started) must leave every registered share at the limit in force - the final shares are part of the history TLC linearises (PartitionLin).",
        ref="5 C05", note=LIM_NOTE),
    "C09": dict(
        technique="deterministic TLA+ contract of the window fold and close rule (spec/Limiter.tla) explored exhaustively by TLC with the real minimum window size; every transition replayed on a real DefaultLimiter on a virtual clock with a recording limit algorithm; random histories (including bursts of concurrent completions) validated by TLC (LimiterTrace); implementation-shaped model of concurrent completions (spec/WindowConc.tla: fold and update as separate critical sections) checked by TLC and replayed edge by edge on the real limiter through the schedule point default.afterFold",
        text="The exact sequence of OnSample(rtt, inflight, drop) calls the algorithm must receive is a function of the history of acquires, clock advances and completions; TLC enumerates the contract's state graph (12.5k-150k transitions) and the harness takes every transition on the real limiter comparing the samples delivered, and 150-1500 random histories (every drop position, ignores, sub-threshold and zero-duration successes) are validated in the other direction. Under concurrency TLC checks on WindowConc that every folded completion is handed over exactly once (NoLoss, SeenOnce, OnlyReady, DropExact; the snapshot design as delivered violates them) and the real limiter is taken through every interleaving of three completions.",
        ref="5 C09", note=LIM_NOTE),
    "C03": dict(
        technique="TLA+ contract (spec/Partition.tla) checked by TLC; every transition of the TLC state graph replayed on the real strategies; recorded random histories validated against the contract by TLC (PartitionTrace)",
        text="The admission rule, shares and bin accounting are a deterministic TLA+ contract. TLC enumerates its full state graph for small constants and the harness executes every transition on the real lookup and predicate strategies comparing result and projected state; long random histories with large limits and dynamic partitions are validated in the other direction by TLC. Matchers are the library's own (case-sensitive and case-insensitive, the folding given to the model as a map); keys differ in case only, requests come without a key or with a non-string key. Free-running concurrent histories (TryAcquire / release / SetLimit / add / remove from several goroutines) are accepted only if TLC finds a linearisation under the contract (PartitionLin).",
        ref="5 C03",
        note="Bounded constants in the exhaustive part (3 partition objects, quarters, limits 1..4, <=5-7 tokens); dyadic fractions so float rounding cannot differ; sequential drivers (the strategy serialises calls behind one mutex)."),
    "C10": dict(
        technique=WRAP_TECH,
        text="TLC checks NoLostWakeup (no caller asleep while capacity is free in a stable state) and TerminalAllServed on the implementation-shaped models of the blocking, deadline and queue limiters for every interleaving of 2-4 callers with releases, timers and cancellations; the as-delivered designs are kept as negative configurations that must violate it. Every transition of those graphs is then forced on the real code (gates + virtual clock) and the recorded executions are accepted or rejected by the contract. The same as a temporal property: under weak fairness of the library's own steps only (LiveSpec), a caller asleep while capacity is free leads to it being woken or the capacity taken (WakeUp), and with arrivals and completions fair every caller is served (ServeSpec, AllServed); the as-delivered designs violate WakeUp. An unjustified refusal is reported and the execution is judged on, so that a sleeper it leaves behind is seen too. Real time: an arrival parked right after its failed attempt while the holder completes must end up served (release-arrival scenarios, all four wrapper kinds, three outcomes).",
        ref="5 C10", note=WRAP_NOTE),
    "C11": dict(
        technique=WRAP_TECH + "; free-running seeded scenarios over every constructor (configuration, defaults, deprecated constructors, pools)",
        text="The contract checks every hand-off choice against the callers still queued in arrival order (oldest for FIFO, newest for LIFO), with the expected order per constructor taken from its name and documentation. Explored: all interleavings of the queue model (FIFO and LIFO, give-ups racing with hand-offs) replayed on the real limiter, plus seeded histories for all 14 ways of constructing a queue limiter or pool. One scenario in three passes a single context value for all callers (a waiter is not identified by its context; judged by who is granted when, with staggered time-outs).",
        ref="5 C11", note=WRAP_NOTE),
    "C12": dict(
        technique=WRAP_TECH,
        text="TLC checks BacklogBounded and BacklogExact (backlog = callers blocked, in stable states) on the queue model including hand-offs racing with time-outs and cancellations; the contract checks the reported queue_size gauge against the callers actually blocked after every stable step of the replayed and free-running executions, and that a refusal at a full backlog takes no virtual time. Arrivals racing inside the attempt-and-push section (one parked there in real time, two more started) must not take the backlog over its maximum. An arrival parked inside its attempt while queued callers are cancelled (still present, waiting for the limiter mutex to leave) finds the backlog at its maximum and is refused (cancel-arrival scenarios, rule strictfull). Default bound: a requested backlog size of zero or below means 100 - one holder, 102 arrivals, the last two refused at once.",
        ref="5 C12", note=WRAP_NOTE),
    "C13": dict(
        technique=WRAP_TECH,
        text="Virtual-clock bounds: TLC checks DeadlineBound, TimeoutBound, CancelBound and NoEarlyRefusal on the models with Tick allowed between any two gates; the contract rejects a caller blocked at or past its bound in a stable state (class bound) and a refusal without a reason (class early) in every recorded execution, with instants exact to the tick. Temporal form under LiveSpec: a cancelled sleeper returns (CancelWakes), nobody sleeps past the deadline (DeadlineWakes; violated by the as-delivered design) or past a due timer (TimeoutWakes). Every other scenario context also carries a far deadline of its own. Real time: a caller that arrives while a completion is parked in mid-release and is then cancelled must have returned when the step has settled (rule promptcancel); the real-time scenarios run first, and what they establish stands if a change stalls the virtual-clock replays. Deadlines that mean never (years 2263, 3000, 9999) through the deadline limiter: nobody is refused before release or cancellation.",
        ref="5 C13", note=WRAP_NOTE),
    "C04": dict(
        technique="TLA+ contract of the limit algorithms as a trace acceptor (spec/LimitTrace.tla, class bounds) validating recorded sample sequences of every algorithm bare, traced and windowed; exact TLA+ models of AIMD (spec/Aimd.tla) and of Vegas in the float-exact sub-domain (spec/VegasModel.tla) model-checked by TLC and replayed transition by transition on the real objects",
        text="After every sample the reported estimate must be a finite integer within [floor, max(ceiling, initial)] and no call may panic: checked by TLC on every line of seeded sequences over extreme inputs (RTT 0, 1, baseline +-1, 2^31, 2^62; in-flight 0..2^31-1; drops, drop-only windows through the windowed limit) for all four algorithms and both wrappers, and as the invariant Bounds in every reachable state of the exact AIMD and Vegas models, whose every transition is executed on the real AIMDLimit / VegasLimit.",
        ref="5 C04", note=ALGO_NOTE),
    "C06": dict(
        technique="exact TLA+ models (spec/Aimd.tla, spec/VegasModel.tla) model-checked by TLC (DropLowers, DropNeverRaises, DropRunReachesFloor in every reachable state) and replayed on the real objects; recorded sequences with drop runs validated by spec/LimitTrace.tla (class loss)",
        text="AIMD's drop rule max(1, min(limit-1, floor(limit*ratio))) is the model itself: every (limit, sample class) transition for ratios 1/2, 7/8, 1 and 9/10 is executed on the real AIMDLimit and must land on the model's value. For Vegas and Gradient the contract rejects any drop sample after which the reported estimate is higher, and every recorded drop run (arbitrary prefix, then only drops at a fixed RTT) must reach the floor within a closed-form bound. Drop runs start both from the state a random prefix left and from the top of the range, with a baseline probe placed early in the run. Two samples issued at once on one real limit (the first parked while it emits its metrics) must leave the estimate some serial order of the two produces on identically prepared twins (Race records).",
        ref="5 C06", note=ALGO_NOTE),
    "C07": dict(
        technique="exact TLA+ models (spec/Aimd.tla, spec/VegasModel.tla: AppLimitedNeverRaises, HealthyRunRecovers in every reachable state) replayed on the real objects; recorded sequences with app-limited samples and healthy saturated runs validated by spec/LimitTrace.tla (class demand)",
        text="No app-limited non-drop sample may raise the estimate (checked on every recorded sample of all four algorithms and, for every reachable state and every input of the bounded domain, in the Vegas model); AIMD +increment exactly on every saturated sample; Gradient at least +queue allowance per healthy non-probe sample; and from the state left by an arbitrary prefix and a drop run, a healthy saturated run must bring the estimate to within one of the ceiling within a closed-form bound (TLC: from every reachable state of the Vegas model). Two samples issued at once on one real limit (the first parked while it emits its metrics) must leave the estimate some serial order of the two produces on identically prepared twins (Race records).",
        ref="5 C07", note=ALGO_NOTE + " Vegas probe multiplier >= 4 (see DESIGN section 7: with 1 or 2 nothing can grow below an estimate of 2, which C15's own bound forces)."),
    "C08": dict(
        technique="TLC checks Monotone on the exact Vegas model (spec/VegasModel.tla) for every reachable state and every RTT pair; recorded twin-instance experiments (identical history, jitter forced through verif accessors, last sample differing only in RTT) validated by spec/LimitTrace.tla (class monotone)",
        text="Relational (two-run) property: for Vegas, Gradient and Gradient2, two identically prepared real instances receive a last sample with RTT lo < hi (both at or above the baseline, neither a probe): the contract rejects esthi > estlo. 45 RTT pairs around the thresholds per prepared state, 90-600 prepared states; plus the universally quantified invariant on the Vegas integer model. Half of the prepared histories carry start times, and the final sample's start time is placed so that some of the compared RTTs make it complete just before an earlier completion and some after. One Gradient history in two ends one to four healthy samples after a forced baseline probe (minimums up to 40, well above the queue allowance), so the pair is judged on the state a probe leaves behind. One configuration in six asks for a smoothing factor outside [0, 1] (-0.1, -0.5, -0.75, -1, -7, 1.5): the constructors must fall back to their defaults.",
        ref="5 C08", note=ALGO_NOTE),
    "C15": dict(
        technique="TLC checks BaselineIsMin on the exact Vegas model; recorded sample sequences (real random jitter) validated by spec/LimitTrace.tla (class baseline): baseline <= RTT, baseline is an RTT seen since the last reset, resets recur within the bound",
        text="After every recorded sample of Vegas and Gradient the contract compares the exactly encoded baseline with the sample's RTT and with the set of RTTs seen since the last reset (probe observed through the verif accessors), and counts samples since the last reset against multiplier x largest estimate (Vegas) / 2 x interval (Gradient). Vegas is also built through its default constructors and with the take-the-default multipliers 0 and -1.",
        ref="5 C15", note=ALGO_NOTE + " Baselines are compared with the float64 value of the RTT (identical below 2^53)."),
    "C16": dict(
        technique="recorded sample / registration sequences of all limit implementations validated by spec/LimitTrace.tla (class notify); exact AIMD model carries the notified value (invariant Notified) and is replayed on the real AIMDLimit",
        text="For every listener registered (0-3, some registered late) the contract requires a call whenever the reported estimate changed and that the last value delivered equals EstimatedLimit afterwards, on every recorded sample of AIMD, Vegas, Gradient, Gradient2, bare and through the traced and windowed wrappers; the windowed wrapper must report its delegate's estimate (WindowedTrace). The windowed driver moves the delegate's estimate without the wrapper in one call of ten; two samples racing with the first parked inside a listener must leave the listener's last value equal to the estimate. The settable limit (Set records: the estimate is the value set, every listener told; no sample moves it) and the fixed limit are driven bare and behind both wrappers, and bursts of concurrent explicit sets must leave the last value delivered equal to the estimate.",
        ref="5 C16", note=ALGO_NOTE),
    "C18": dict(
        technique="TLA+ contract of the measurement primitives as a trace acceptor (spec/MeasureTrace.tla) on exactly encoded float64 bit patterns; the sample-window fold is additionally part of the Limiter contract whose full state graph is replayed on the real limiter",
        text="Minimum = least sample since reset, single = latest, averages inside the hull of the samples seen, variance non-negative, Add's flag true whenever Get() changed, a reset instance bit-identical to a fresh twin for the same subsequent samples, and the immutable sample window's fold independent of the order of its samples - checked by TLC on every line of 360-3000 seeded sequences per run. Update is part of the sequences (the operation sees the stored value and its result is stored; minimum: offered as a sample). An Update parked inside its operation while Add / Reset / Update is called on the same instance must leave a state some serial order produces on twins (Race records).",
        ref="5 C18", note="Numerical accuracy of the floating-point primitives is not modelled (order and equality of exact bit patterns only); positive finite samples."),
    "C14": dict(
        technique="TLA+ contract of one intercepted operation (spec/Grpc.tla); TLC enumerates the full product of inputs (GrpcMC) and every case is executed on the real interceptors with recording doubles; recorded random operation sequences and full-duplex stream scenarios validated by TLC (GrpcTrace); implementation-shaped model of two operations in flight on one stream (spec/GrpcStream.tla)",
        text="All 10 368 combinations of operation (unary server / unary client / RecvMsg / SendMsg) x grant x inner error x classifier answer x limit-exceeded code x the classifier's error value (plain / gRPC status of another code / wrapped status) x default-or-custom classifiers x default-or-custom limit-exceeded classifier x name/tag options absent / first / last x context live / cancelled during the call / expired are executed against the real interceptors with recording limiter/listener doubles and fake handler, invoker and ServerStream; the observation (limiter consulted, wrapped call run, listener method on which token, returned value / status code) must equal the contract's. 3k-20k random operations are validated in the other direction. Full duplex: one RecvMsg and one SendMsg overlapping on the same wrapped stream in four orders of entering and leaving the transport x every grant / error / classification / option combination (2 560 operations), each operation's own observation validated against the same contract; the design-level model spec/GrpcStream.tla (token in a local variable: exactly once; token parked in a per-stream field: violated) is model-checked next to it. Two interceptors of the package chained (contract ChainG, 1 536 cases over all four kinds): the layer entered first gates on its own limiter before the inner layer is entered and completes its token last, classifying what the inner layer returned.",
        ref="5 C14", note="Interceptors are stateless, so sequences are independent operations; no network; the stream classifiers are taken as named (RecvMsg -> server stream classifier, SendMsg -> client stream classifier)."),
    "C20": dict(
        technique="implementation-shaped TLA+ model of the registries' poller life cycle (spec/Registry.tla) model-checked by TLC with the as-delivered and flag-only variants as negative configurations; recorded Start/Stop/Register/advance/sample sequences of both bundled registries on a virtual clock validated by TLC against spec/RegistryTrace.tla; emission checked through the Limiter contract (in-flight sample at the admission decision, limit gauge)",
        text="TLC checks AtMostOnePoller, PollOnlyWhileStarted, StopTerminates (no deadlock with a poll in progress) and NoPollerAfterStop for sequential and two concurrent callers; the code as delivered (started never set) and the naive repair (flag only: deadlock) must fail. Real go-metrics and Datadog registries (statsd client writing to a buffer) are driven through seeded call sequences in a synctest bubble: polls per gauge per ticker instant, forwarding of distribution/timing/count samples to the backend metric of the right kind under the prefixed name, and a poller left after the last Stop are compared with the contract after every call. Every processed sample of every limit algorithm (probes included) emits one RTT, one in-flight and a drop increment iff drop (LimitTrace class metrics). A grant by a partitioned strategy emits one in-flight sample tagged with the partition charged, valued at that partition's count (Partition contract); in free-running concurrent histories of the simple and precise strategies the sample of every acquire must be the count at the call's linearisation point (GateTrace with CheckN). Naming: for every constructor (go-metrics, Datadog over a caller's client, Datadog by address against a fake agent on a loopback UDP socket) and requested prefix (empty, with and without trailing dot) a listener's and a polled gauge's metric must arrive under exactly EffPrefix + id (RegistryTrace Naming). Restart: a polled gauge's backend value in two consecutive Start..Stop periods (go-metrics and Datadog) must follow the supplier.",
        ref="5 C20", note="Sequential callers in the recorded sequences; virtual clock; per-sample emission of the limit algorithms is covered by the limit traces."),
    "C19": dict(
        technique=WRAP_TECH + "; free-running pool scenarios (fixed and generic pools, FIFO/LIFO/random) with 'everyone is served' runs",
        text="Never more than the limit held: the contract's atomic-gate check on every delegate attempt and every grant (black-box mode for the fixed pool). Everyone served: TLC's TerminalAllServed on the acyclic models (every maximal behaviour ends with all callers granted and completed) and, on the real pools, seeded runs with callers <= limit + backlog whose every refusal or unanswered caller is rejected (class starved). Temporal form: WakeUp under LiveSpec and AllServed under ServeSpec (weak fairness of the library's steps, of arrivals and of completions). The check / increment window of the weakened lock model is realised through generic pools (simple strategy, all three orderings) and fixed pools: caller 1 parked at the strategy's schedule point, caller 2 started, the recorded history judged as a counting gate (GateTrace).",
        ref="5 C19", note=WRAP_NOTE),
}

NOT_APPLICABLE = {
    "C17": "data-race freedom is a property of memory accesses; a TLA+ specification abstracts each critical section to one action and cannot observe unsynchronised accesses (needs a happens-before race detector, a different technique family)",
}

ALL = ["C%02d" % i for i in range(1, 21)]


def main():
    hooks = json.load(open(os.path.join(VERIF, "hooks.json")))
    checks = []
    for pid in ALL:
        if pid not in CHECKS:
            continue
        c = CHECKS[pid]
        checks.append({
            "property_id": pid,
            "quick_cmd": "bin/check %s --tier quick" % pid,
            "thorough_cmd": "bin/check %s --tier thorough" % pid,
            "evidence_file": "/verif/evidence/%s.json" % pid,
            "replay_cmd_template": "bin/check %s --tier quick  # replay file {path} holds the schedule, the recorded trace and the rejected step" % pid,
            "engine": "check",
            "technique": c["technique"],
            "level_claimed": {"category": "model_checking", "text": c["text"], "design_ref": c["ref"]},
            "level_note": c["note"],
        })
    na = [{"property_id": p, "reason": r} for p, r in NOT_APPLICABLE.items()]
    for pid in ALL:
        if pid not in CHECKS and pid not in NOT_APPLICABLE:
            na.append({"property_id": pid, "reason": "check not built yet (work in progress; see DESIGN.md section 10)"})
    m = {
        "version": 1,
        "setup_cmd": "cd /verif && GOFLAGS=-mod=mod GOPROXY=off GOSUMDB=off GOTOOLCHAIN=local sh -c 'cp /repo/go.sum harness/go.sum && cd harness && go1.26.8 vet -tags verif . && cd /verif/spec && for m in *.tla; do tla-sany $m >/dev/null || exit 1; done'",
        "hooks": hooks,
        "engines": [{"name": "check", "path": "/verif/bin/check", "serves_properties": sorted(CHECKS),
                     "kind_free_text": "python orchestrator: TLC (mc / neg / graph emission / trace validation) + Go harness (replay of TLC state graphs and schedules into the real code under testing/synctest, recorded traces)"}],
        "checks": checks,
        "not_applicable": na,
        "notes": "Every check rebuilds the harness from /repo's working tree with -tags verif. known_findings.json lists recorded and fixed defects; DESIGN.md explains the approach.",
    }
    with open(os.path.join(VERIF, "MANIFEST.json"), "w") as f:
        json.dump(m, f, indent=1)
    print("MANIFEST.json: %d checks, %d not applicable" % (len(checks), len(na)))


if __name__ == "__main__":
    main()
