//go:build verif

package harness

import (
	"context"
	"encoding/json"
	"fmt"
	"runtime"
	"sort"
	"sync"
	"testing"
	"testing/synctest"
	"time"

	"github.com/platinummonkey/go-concurrency-limits/core"
)

// tickDur is the duration of one tick of the specifications' virtual clock.
const tickDur = time.Millisecond

// sproc is one logical process of a scenario: it calls Acquire once and, if granted, completes once.
type sproc struct {
	name     string
	ctx      context.Context
	cancel   context.CancelFunc
	state    string // idle | calling | granted | refused | releasing | released
	listener core.Listener
}

// scenario runs schedule steps against a real limiter stack inside a synctest bubble.
type scenario struct {
	t       testing.TB
	c       *controller
	lim     core.Limiter
	procs   map[string]*sproc
	names   []string
	t0      time.Time
	noClock bool
	tick    time.Duration
	mu      sync.Mutex
	evs     []J // events of the current step in the order they happened
	extra   func() J
	wrapCtx func(ctx context.Context) context.Context
	flush   func() // stack-specific clean-up (e.g. a Broadcast to flush leaked helpers)
	settle  func() // real-time scenarios (no bubble): how to wait for quiescence after a step
}

// wait for quiescence: inside a bubble synctest.Wait(); in real time the scenario's settle function
func (s *scenario) quiesce() {
	if s.settle != nil {
		s.settle()
		return
	}
	synctest.Wait()
}

// settleRealTime polls until the observable state has not changed for `quiet`, at most `max`.
func (s *scenario) settleRealTime(quiet, max time.Duration) {
	// quiet = unchanged for the given time AND over at least 12 polls, each of which yields the processor: if the whole
	// process was descheduled for a while (a loaded machine), elapsed wall-clock time alone says nothing about whether the
	// scenario's goroutines have had a chance to run
	deadline := time.Now().Add(max)
	look := func() string { // the observable state without the clock reading (which changes by itself)
		o := s.observe()
		delete(o, "t")
		return canonV(o)
	}
	last := look()
	stableSince, polls := time.Now(), 0
	for time.Now().Before(deadline) {
		time.Sleep(200 * time.Microsecond)
		runtime.Gosched()
		cur := look()
		if cur != last {
			last, stableSince, polls = cur, time.Now(), 0
		} else if polls++; polls >= 12 && time.Since(stableSince) >= quiet {
			return
		}
	}
}

func newScenario(t testing.TB, c *controller, names []string) *scenario {
	s := &scenario{t: t, c: c, procs: map[string]*sproc{}, names: names, t0: time.Now()}
	for i, n := range names {
		ctx, cancel := context.WithCancel(context.WithValue(context.Background(), procKey, n))
		if i%2 == 1 {
			// every other caller carries a request deadline far beyond anything the scenario waits for (an hour): being
			// cancelled explicitly must still end its wait at once
			dctx, dcancel := context.WithTimeout(ctx, time.Hour)
			c0 := cancel
			ctx, cancel = dctx, func() { c0(); dcancel() }
		}
		s.procs[n] = &sproc{name: n, ctx: ctx, cancel: cancel, state: "idle"}
	}
	return s
}

func (s *scenario) ev(e J) {
	s.mu.Lock()
	s.evs = append(s.evs, e)
	s.mu.Unlock()
}

// now is the scenario's clock in ticks; real-time scenarios that judge no durations pin it to 0 (noClock).
func (s *scenario) now() int {
	if s.noClock {
		return 0
	}
	return int(time.Since(s.t0) / s.tickLen())
}

// tickLen is the scenario's clock unit: tickDur unless the scenario judges finer instants (tick).
func (s *scenario) tickLen() time.Duration {
	if s.tick > 0 {
		return s.tick
	}
	return tickDur
}

type schedStep struct {
	A       string `json:"a"`
	P       string `json:"p,omitempty"`
	Call    string `json:"call,omitempty"`
	Gate    string `json:"gate,omitempty"`
	Outcome string `json:"outcome,omitempty"`
	N       int    `json:"n,omitempty"`
}

// apply executes one schedule step and waits until every goroutine is parked, blocked or done.
func (s *scenario) apply(st schedStep) error {
	s.mu.Lock()
	s.evs = nil
	s.mu.Unlock()
	p := s.procs[st.P]
	switch st.A {
	case "start":
		if p == nil {
			return fmt.Errorf("unknown process %q", st.P)
		}
		s.c.mu.Lock()
		s.c.curProc = st.P
		s.c.mu.Unlock()
		switch st.Call {
		case "acquire":
			if p.state != "idle" {
				return fmt.Errorf("%s is %s, cannot start acquire", st.P, p.state)
			}
			p.state = "calling"
			ctx := p.ctx
			if s.wrapCtx != nil {
				ctx = s.wrapCtx(ctx)
			}
			go func() {
				s.c.register(p.name)
				l, ok := s.lim.Acquire(ctx)
				s.c.unregister()
				s.mu.Lock()
				p.listener = l
				if ok {
					p.state = "granted"
				} else {
					p.state = "refused"
				}
				s.evs = append(s.evs, J{"k": "ret", "p": p.name, "ok": ok, "nil": l == nil, "t": s.now()})
				s.mu.Unlock()
			}()
		case "release":
			if p.state != "granted" || p.listener == nil {
				return fmt.Errorf("%s is %s, cannot release", st.P, p.state)
			}
			p.state = "releasing"
			l := p.listener
			go func() {
				s.c.register(p.name)
				switch st.Outcome {
				case "ignore":
					l.OnIgnore()
				case "dropped":
					l.OnDropped()
				default:
					l.OnSuccess()
				}
				s.c.unregister()
				s.mu.Lock()
				p.state = "released"
				s.evs = append(s.evs, J{"k": "reldone", "p": p.name})
				s.mu.Unlock()
			}()
		default:
			return fmt.Errorf("unknown call %q", st.Call)
		}
	case "pass":
		if !s.c.pass(st.P, st.Gate) {
			return fmt.Errorf("%s is not parked at %s (parked: %v)", st.P, st.Gate, s.c.parkedMap())
		}
	case "passchild":
		if !s.c.pass(st.P+"/child", "block.childStart") {
			return fmt.Errorf("%s has no helper parked (parked: %v)", st.P, s.c.parkedMap())
		}
	case "cancel":
		if p == nil {
			return fmt.Errorf("unknown process %q", st.P)
		}
		s.c.mu.Lock()
		s.c.curProc = st.P
		s.c.mu.Unlock()
		p.cancel()
	case "tick":
		n := st.N
		if n < 1 {
			n = 1
		}
		time.Sleep(time.Duration(n) * s.tickLen())
	default:
		return fmt.Errorf("unknown step %q", st.A)
	}
	s.quiesce()
	return nil
}

// observe is the projection compared with the model's Obs after every step.
func (s *scenario) observe() J {
	parked := s.c.parkedMap()
	procs := J{}
	kids := J{}
	s.mu.Lock()
	for _, n := range s.names {
		p := s.procs[n]
		st := p.state
		if g, ok := parked[n]; ok {
			st = "gate:" + g
		} else if st == "calling" {
			st = "blocked"
		} else if st == "releasing" {
			st = "relblocked"
		}
		procs[n] = st
		_, k := parked[n+"/child"]
		kids[n] = k
	}
	s.mu.Unlock()
	o := J{"t": s.now(), "procs": procs, "kids": kids}
	if s.extra != nil {
		for k, v := range s.extra() {
			o[k] = v
		}
	}
	return o
}

func (s *scenario) events() []J {
	s.mu.Lock()
	defer s.mu.Unlock()
	return append([]J{}, s.evs...)
}

// cleanup lets every goroutine of the scenario finish so that the bubble can exit.
func (s *scenario) cleanup() {
	s.c.disableAll()
	for i := 0; i < 4; i++ {
		s.c.passAll()
		synctest.Wait()
		for _, n := range s.names {
			s.procs[n].cancel()
		}
		synctest.Wait()
		time.Sleep(10 * time.Second)
		synctest.Wait()
		s.mu.Lock()
		var ls []core.Listener
		for _, n := range s.names {
			p := s.procs[n]
			if p.state == "granted" && p.listener != nil {
				ls = append(ls, p.listener)
				p.state = "released"
			}
		}
		s.mu.Unlock()
		for _, l := range ls {
			l.OnIgnore()
		}
		synctest.Wait()
		if s.flush != nil {
			s.flush()
			synctest.Wait()
		}
	}
}

// ---------------------------------------------------------------------------------------------
// Schedule graphs (TLC "T" lines of an implementation-shaped model) and their path cover
// ---------------------------------------------------------------------------------------------

type sEdge struct {
	From, To string
	Step     schedStep
	StepRaw  json.RawMessage
	Obs      string // expected projection after the step
	covered  bool
}

type sGraph struct {
	cfg     json.RawMessage
	init    string
	initObs string
	adj     map[string][]*sEdge
	edges   []*sEdge
	parent  map[string]*sEdge // BFS tree
}

func loadSGraph(t testing.TB, path string) *sGraph {
	g := &sGraph{adj: map[string][]*sEdge{}, parent: map[string]*sEdge{}}
	for _, raw := range readNd(t, path) {
		var line struct {
			T string          `json:"t"`
			V json.RawMessage `json:"v"`
		}
		if err := json.Unmarshal(raw, &line); err != nil {
			t.Fatalf("bad line: %v", err)
		}
		switch line.T {
		case "C":
			g.cfg = line.V
		case "I":
			var i struct{ St, Obs json.RawMessage }
			json.Unmarshal(line.V, &i)
			g.init, g.initObs = canon(i.St), canon(i.Obs)
		case "T":
			var tr struct{ From, To, Step, Obs json.RawMessage }
			if err := json.Unmarshal(line.V, &tr); err != nil {
				t.Fatal(err)
			}
			e := &sEdge{From: canon(tr.From), To: canon(tr.To), StepRaw: tr.Step, Obs: canon(tr.Obs)}
			json.Unmarshal(tr.Step, &e.Step)
			g.adj[e.From] = append(g.adj[e.From], e)
			g.edges = append(g.edges, e)
		}
	}
	if g.init == "" || len(g.edges) == 0 {
		t.Fatalf("graph %s: no init state or no transitions", path)
	}
	// BFS tree from the initial state
	seen := map[string]bool{g.init: true}
	q := []string{g.init}
	for len(q) > 0 {
		cur := q[0]
		q = q[1:]
		for _, e := range g.adj[cur] {
			if !seen[e.To] {
				seen[e.To] = true
				g.parent[e.To] = e
				q = append(q, e.To)
			}
		}
	}
	return g
}

func (g *sGraph) pathFromInit(n string) []*sEdge {
	var p []*sEdge
	for n != g.init {
		e := g.parent[n]
		if e == nil {
			return nil
		}
		p = append([]*sEdge{e}, p...)
		n = e.From
	}
	return p
}

// coverPaths returns schedules (edge paths from the initial state) that together take every edge
// of the graph: for each still uncovered edge, the BFS path to its source, the edge, then a
// greedy extension that prefers uncovered edges until a state without successors is reached.
func (g *sGraph) coverPaths(maxLen int) [][]*sEdge {
	var out [][]*sEdge
	for _, e := range g.edges {
		if e.covered {
			continue
		}
		pre := g.pathFromInit(e.From)
		if pre == nil && e.From != g.init {
			continue
		}
		path := append(append([]*sEdge{}, pre...), e)
		for _, x := range path {
			x.covered = true
		}
		cur := e.To
		for len(path) < maxLen {
			var next *sEdge
			for _, x := range g.adj[cur] {
				if !x.covered {
					next = x
					break
				}
			}
			if next == nil {
				// follow the first edge (deterministic) to finish the scenario
				if len(g.adj[cur]) == 0 {
					break
				}
				next = g.adj[cur][0]
				// prefer an edge that leads somewhere with uncovered work one step ahead
				for _, x := range g.adj[cur] {
					has := false
					for _, y := range g.adj[x.To] {
						if !y.covered {
							has = true
							break
						}
					}
					if has {
						next = x
						break
					}
				}
			}
			next.covered = true
			path = append(path, next)
			cur = next.To
		}
		out = append(out, path)
	}
	return out
}

// greedyFrom continues a schedule from node cur: uncovered edges first, until a state without successors.
func (g *sGraph) greedyFrom(cur string, maxLen int) []*sEdge {
	var path []*sEdge
	for len(path) < maxLen && len(g.adj[cur]) > 0 {
		next := g.adj[cur][0]
		for _, x := range g.adj[cur] {
			if !x.covered {
				next = x
				break
			}
		}
		next.covered = true
		path = append(path, next)
		cur = next.To
	}
	return path
}

// sibling finds another edge with the same source and step whose predicted observation is got:
// the model allows several outcomes for that step (e.g. Go's select with two ready cases).
func (g *sGraph) sibling(e *sEdge, got string) *sEdge {
	want := canon(e.StepRaw)
	for _, x := range g.adj[e.From] {
		if x != e && x.Obs == got && canon(x.StepRaw) == want {
			return x
		}
	}
	return nil
}

// schedReport summarises a replay of schedule paths.
type schedReport struct {
	Graph        string `json:"graph"`
	States       int    `json:"states"`
	Edges        int    `json:"edges"`
	Scenarios    int    `json:"scenarios"`
	Steps        int    `json:"steps_executed"`
	Conform      int    `json:"steps_conforming"`
	Infeasible   int    `json:"scenarios_infeasible"`
	Diverged     int    `json:"scenarios_diverged"`
	Alternates   int    `json:"nondeterministic_outcomes_followed"`
	Leaked       int    `json:"scenarios_leaking_goroutines"`
	FirstDiverge []J    `json:"first_divergences"`
}

func sortedNames(m map[string]*sproc) []string {
	var ns []string
	for n := range m {
		ns = append(ns, n)
	}
	sort.Strings(ns)
	return ns
}
